#!/bin/bash
# development aid: run checks against a mutant in a scratch worktree (never touches /repo)
# usage: mutrun.sh <mutant-dir> <tier> <prop> [<prop>...]   -> prints one line per property
md=$1; tier=$2; shift 2
name=$(echo "$md" | tr '/' '_' | sed 's/^_*//')
wt=/tmp/mutwt-$name
out=/root/scratch/mutout/$name
rm -rf "$out"; mkdir -p "$out"
git -C /repo worktree remove --force "$wt" >/dev/null 2>&1
git -C /repo worktree add --detach "$wt" HEAD >/dev/null 2>&1 || { echo "$md worktree failed"; exit 9; }
cp /repo/Cargo.lock "$wt/" 2>/dev/null
if ! git -C "$wt" apply "$md/patch.diff" 2>"$out/apply.err"; then
  if ! git -C "$wt" apply --3way "$md/patch.diff" 2>>"$out/apply.err"; then echo "$md PATCH-DOES-NOT-APPLY"; git -C /repo worktree remove --force "$wt"; exit 8; fi
fi
for p in "$@"; do
  s=$(date +%s)
  VERIF_REPO="$wt" VERIF_OUT="$out" /verif/check $p --tier $tier > "$out/$p.txt" 2>&1; rc=$?
  echo "$md $p exit=$rc $(( $(date +%s) - s ))s :: $(grep -E '^violated|^VIOLATION' "$out/$p.txt" | head -1 | cut -c1-200)"
done
git -C /repo worktree remove --force "$wt" >/dev/null 2>&1
rm -rf "$wt"
