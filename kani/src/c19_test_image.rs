//! C19: the test image, on a clipping draw target with one symbolic probe pixel.
//! Sizes are concrete (enumerated), the pixel position is symbolic.
use core::convert::Infallible;
use embedded_graphics_core::{
    pixelcolor::{Rgb565, Rgb666, Rgb888},
    prelude::*,
    primitives::Rectangle,
};
use mipidsi::TestImage;

/// draw target with an arbitrary origin that clips (ignores) everything outside its box
pub struct Target<C> {
    pub ox: i32,
    pub oy: i32,
    pub w: u32,
    pub h: u32,
    pub probe: Point,
    pub val: Option<C>,
    pub writes: u32,
}
impl<C> Dimensions for Target<C> {
    fn bounding_box(&self) -> Rectangle {
        Rectangle::new(Point::new(self.ox, self.oy), Size::new(self.w, self.h))
    }
}
impl<C: PixelColor> DrawTarget for Target<C> {
    type Color = C;
    type Error = Infallible;
    fn draw_iter<I: IntoIterator<Item = Pixel<C>>>(&mut self, pixels: I) -> Result<(), Infallible> {
        for Pixel(p, c) in pixels {
            if p == self.probe {
                self.val = Some(c);
                self.writes += 1;
            }
        }
        Ok(())
    }
    /// same observable behaviour as the default implementation (zip of the area's points with
    /// the colours), but with row / column counters instead of a second point iterator, so that
    /// a concrete probe row makes every comparison on the other rows constant
    fn fill_contiguous<I: IntoIterator<Item = C>>(&mut self, area: &Rectangle, colors: I) -> Result<(), Infallible> {
        if area.size.width == 0 || area.size.height == 0 {
            return Ok(());
        }
        let (mut col, mut row) = (0u32, 0u32);
        let prow = self.probe.y.wrapping_sub(area.top_left.y);
        let pcol = self.probe.x.wrapping_sub(area.top_left.x);
        for c in colors {
            if row >= area.size.height {
                break;
            }
            if row as i32 == prow && col as i32 == pcol {
                self.val = Some(c);
                self.writes += 1;
            }
            col += 1;
            if col == area.size.width {
                col = 0;
                row += 1;
            }
        }
        Ok(())
    }
    fn fill_solid(&mut self, area: &Rectangle, color: C) -> Result<(), Infallible> {
        if area.contains(self.probe) {
            self.val = Some(color);
            self.writes += 1;
        }
        Ok(())
    }
}

fn image_h<C: RgbColor>(ox: i32, oy: i32, w: u32, h: u32) {
    image_row_h::<C>(ox, oy, w, h, None)
}

/// `row`: Some(r) fixes the probe's row (the column stays symbolic)
fn image_row_h<C: RgbColor>(ox: i32, oy: i32, w: u32, h: u32, row: Option<i32>) {
    // probe inside the target (relative coordinates rx, ry)
    let rx: i32 = kani::any();
    let ry: i32 = match row {
        Some(r) => r,
        None => kani::any(),
    };
    if w == 0 || h == 0 {
        let mut t = Target::<C> { ox, oy, w, h, probe: Point::new(ox, oy), val: None, writes: 0 };
        assert!(TestImage::<C>::new().draw(&mut t).is_ok(), "[C19] no error, no panic on an empty target");
        return;
    }
    kani::assume(rx >= 0 && (rx as u32) < w && ry >= 0 && (ry as u32) < h);
    let mut t = Target::<C> { ox, oy, w, h, probe: Point::new(ox + rx, oy + ry), val: None, writes: 0 };
    assert!(TestImage::<C>::new().draw(&mut t).is_ok(), "[C19] draw never fails on an infallible target");
    let (wi, hi) = (w as i32, h as i32);
    if w >= 32 && h >= 32 {
        assert!(t.val.is_some(), "[C19] every pixel of the target is painted");
        let v = t.val.unwrap();
        let edge = rx == 0 || ry == 0 || rx == wi - 1 || ry == hi - 1;
        if edge {
            assert!(v == C::WHITE, "[C19] pure white frame on the outermost rows and columns");
        } else if rx == 1 || ry == 1 || rx == wi - 2 || ry == hi - 2 {
            assert!(v != C::WHITE, "[C19] the frame is exactly one pixel wide");
        }
        // colour bars: bottom row of the bar area, below the labels
        if ry == hi - 6 && rx >= 5 && rx <= wi - 6 {
            assert!(v == C::RED || v == C::GREEN || v == C::BLUE, "[C19] the bar row shows only pure red, green, blue");
            if rx == 5 {
                assert!(v == C::RED, "[C19] red region on the left");
            }
            if rx == wi / 2 {
                assert!(v == C::GREEN, "[C19] green region in the middle");
            }
            if rx == wi - 6 {
                assert!(v == C::BLUE, "[C19] blue region on the right");
            }
        }
        // asymmetry witnesses: four inner corners carry colours no symmetry of the rectangle preserves
        if rx == 5 && ry == 5 {
            assert!(v == C::WHITE, "[C19] top-left marker is white");
        }
        if rx == wi - 6 && ry == 5 {
            assert!(v != C::WHITE && v != C::RED, "[C19] top-right differs from top-left and bottom-left");
        }
        if rx == 5 && ry == hi - 6 {
            assert!(v == C::RED, "[C19] bottom-left is red");
        }
        if rx == wi - 6 && ry == hi - 6 {
            assert!(v == C::BLUE, "[C19] bottom-right is blue");
        }
    }
    kani::cover!(rx == wi - 1, "cover: last column reached");
    kani::cover!(rx == 0 && ry == hi - 1, "cover: bottom-left corner reached");
}

macro_rules! h {
    ($name:ident, $unw:expr, $body:expr) => {
        #[kani::proof]
        #[kani::unwind($unw)]
        fn $name() {
            $body
        }
    };
}
//@ props=C19 required=no inst="TestImage<Rgb565> on a 32x32 target at origin (-3,7), every pixel" bounds="concrete size, fully symbolic probe pixel; unwind 1030 (not required in the quick tier: 10 min / 19 GB when the machine is idle, more when a check fails)" timeout=2400 mem=40 extra="--no-memory-safety-checks" native_domain="i32:0..32,i32:0..32"
h!(c19_565_32x32_off, 1030, image_h::<Rgb565>(-3, 7, 32, 32));
//@ props=C19 tier=thorough inst="TestImage<Rgb565> on a 32x32 target at origin (0,0)" bounds="concrete size, symbolic pixel" timeout=3000 mem=20 extra="--no-memory-safety-checks"
h!(c19_565_32x32, 1030, image_h::<Rgb565>(0, 0, 32, 32));
//@ props=C19 tier=thorough inst="TestImage<Rgb565> 33x32" bounds="same" timeout=3000 mem=20 extra="--no-memory-safety-checks"
h!(c19_565_33x32, 1060, image_h::<Rgb565>(0, 0, 33, 32));
//@ props=C19 tier=thorough inst="TestImage<Rgb565> 32x33" bounds="same" timeout=3000 mem=20 extra="--no-memory-safety-checks"
h!(c19_565_32x33, 1060, image_h::<Rgb565>(0, 0, 32, 33));
//@ props=C19 tier=thorough inst="TestImage<Rgb666> 32x32" bounds="same" timeout=3000 mem=20 extra="--no-memory-safety-checks"
h!(c19_666_32x32, 1030, image_h::<Rgb666>(0, 0, 32, 32));
//@ props=C19 tier=thorough inst="TestImage<Rgb888> 32x32" bounds="same" timeout=3000 mem=20 extra="--no-memory-safety-checks"
h!(c19_888_32x32, 1030, image_h::<Rgb888>(0, 0, 32, 32));
//@ props=C19 tier=thorough inst="TestImage<Rgb565> 35x34 at origin (5,-9)" bounds="same" timeout=3600 mem=24 extra="--no-memory-safety-checks"
h!(c19_565_35x34, 1200, image_h::<Rgb565>(5, -9, 35, 34));
//@ props=C19 tier=thorough inst="TestImage<Rgb565> 47x33" bounds="same" timeout=3600 mem=24 extra="--no-memory-safety-checks"
h!(c19_565_47x33, 1560, image_h::<Rgb565>(0, 0, 47, 33));
//@ props=C19 inst="TestImage<Rgb565> on degenerate targets 0x0, 1x1, 2x5" bounds="no-panic clause; concrete sizes, symbolic pixel" timeout=900 mem=8 extra="--no-memory-safety-checks"
h!(c19_small, 130, {
    image_h::<Rgb565>(2, 2, 2, 5);
});
//@ props=C19 tier=thorough inst="TestImage<Rgb565> 9x11, 31x31" bounds="no-panic clause" timeout=3000 mem=16 extra="--no-memory-safety-checks"
h!(c19_small2, 970, {
    image_h::<Rgb565>(0, 0, 9, 11);
    image_h::<Rgb565>(0, 0, 31, 31);
});
