//! Oracle self-check: `inv_expected` is the two-sided inverse of `expected`, and
//! `expected` maps the logical bounding box into the panel window.  So choosing the
//! logical pre-image of the probe with `inv_expected` loses no cell.
use crate::oracle::*;
use crate::sym::*;

#[kani::proof]
fn oracle_inverse() {
    let (w, h, ox, oy): (u16, u16, u16, u16) = (kani::any(), kani::any(), kani::any(), kani::any());
    let (fw, fh): (u16, u16) = (kani::any(), kani::any());
    kani::assume(init_ok(fw, fh, w, h, ox, oy));
    let o = any_orientation();
    let (lw, lh) = logical_size(o, w, h);
    // forward then back
    let (x, y): (u16, u16) = (kani::any(), kani::any());
    if x < lw && y < lh {
        let e = expected(o, w, h, ox, oy, x, y);
        assert!(e.0 >= ox && (e.0 as u32) < ox as u32 + w as u32, "[ORACLE] image inside window x");
        assert!(e.1 >= oy && (e.1 as u32) < oy as u32 + h as u32, "[ORACLE] image inside window y");
        assert!(e.0 < fw && e.1 < fh, "[ORACLE] image inside framebuffer");
        assert!(inv_expected(o, w, h, ox, oy, e) == Some((x, y)), "[ORACLE] inv(expected) = id");
    }
    // back then forward
    let cell: (u16, u16) = (kani::any(), kani::any());
    match inv_expected(o, w, h, ox, oy, cell) {
        Some((a, b)) => {
            assert!(a < lw && b < lh, "[ORACLE] pre-image inside logical box");
            assert!(expected(o, w, h, ox, oy, a, b) == cell, "[ORACLE] expected(inv) = id");
        }
        None => {
            let inwin = cell.0 >= ox
                && (cell.0 as u32) < ox as u32 + w as u32
                && cell.1 >= oy
                && (cell.1 as u32) < oy as u32 + h as u32;
            assert!(!inwin, "[ORACLE] None only outside the window");
        }
    }
    kani::cover!(x < lw && y < lh && o.mirrored && w != h, "cover: forward case reachable");
}
