//! C16: vertical scroll set-up spans the framebuffer height, never panics, offset unchanged.
use crate::env::*;
use crate::sym::*;
use embedded_graphics_core::pixelcolor::{Rgb565, Rgb666};
use mipidsi::interface::InterfacePixelFormat;
use mipidsi::{models::*, Builder};

fn scroll_h<M: Model>(m: M)
where
    M::ColorFormat: InterfacePixelFormat<u8>,
{
    let mut world = World::new(NEVER);
    let wp: *mut World = &mut world;
    let (fw, fh) = M::FRAMEBUFFER_SIZE;
    let ctl = Ctl::<u8, 1, false>::new(wp, fw, fh, (0, 0));
    let o = any_orientation();
    let Ok(mut d) = Builder::new(m, ctl).orientation(o).reset_pin(Pin).init(&mut NoDelay) else {
        assert!(false, "[C16] full-size init failed");
        return;
    };
    let cmds0 = unsafe { d.dcs() }.c.cmds;
    let (top, bottom): (u16, u16) = (kani::any(), kani::any());
    let r = d.set_vertical_scroll_region(top, bottom);
    assert!(r.is_ok(), "[C16] no error without a bus fault");
    let off: u16 = kani::any();
    d.set_vertical_scroll_offset(off).unwrap();
    let (ctl, _, _) = d.release();
    let c = &ctl.c;
    assert!(c.cmds == cmds0 + 2, "[C16] one command per call");
    assert!(c.vscrdef_count == 1 && !c.vscrdef_bad_len, "[C16] exactly one scroll-area definition with 6 parameter bytes");
    let (tfa, vsa, bfa) = c.vscrdef;
    assert!(tfa as u32 + vsa as u32 + bfa as u32 == fh as u32, "[C16] TFA + VSA + BFA = framebuffer height");
    if top as u32 + bottom as u32 <= fh as u32 {
        assert!(tfa == top && bfa == bottom, "[C16] fixed areas passed through when they fit");
    }
    assert!(c.vscsad_count == 1 && !c.vscsad_bad_len && c.vscsad == off, "[C16] scroll offset unchanged, big-endian");
    assert!(c.pixels == 0 && c.ramwr_count == 0, "[C16] no pixel traffic");
    kani::cover!(top as u32 + bottom as u32 == fh as u32, "cover: exactly fits");
    kani::cover!(top as u32 + bottom as u32 > fh as u32, "cover: does not fit");
}

macro_rules! h {
    ($name:ident, $unw:expr, $body:expr) => {
        #[kani::proof]
        #[kani::unwind($unw)]
        fn $name() {
            $body
        }
    };
}
//@ props=C16 inst="VModel<_,1> (height 1)" bounds="all (top,bottom) in u16^2, all offsets, 8 orientations" timeout=300 mem=3
h!(c16_v_h1, 3, scroll_h(VModel::<Rgb565, 7, 1>::new()));
//@ props=C16 inst="VModel<_,65535> (height 65535)" bounds="same" timeout=300 mem=3
h!(c16_v_hmax, 3, scroll_h(VModel::<Rgb565, 7, 65535>::new()));
//@ props=C16 pick=c16m:2 inst="ST7789 (320 rows)" bounds="same; unwind 20 for the init sequence" timeout=400 mem=4
h!(c16_st7789, 20, scroll_h(ST7789));
//@ props=C16 pick=c16m:2 inst="ILI9341Rgb666 (320 rows)" bounds="same" timeout=400 mem=4
h!(c16_ili9341_666, 20, scroll_h(ILI9341Rgb666));
//@ props=C16 pick=c16m:2 inst="ILI9342CRgb565 (240 rows)" bounds="same" timeout=400 mem=4
h!(c16_ili9342c, 20, scroll_h(ILI9342CRgb565));
//@ props=C16 pick=c16m:2 inst="ILI9486Rgb666 (480 rows)" bounds="same" timeout=400 mem=4
h!(c16_ili9486_666, 20, scroll_h(ILI9486Rgb666));
//@ props=C16 pick=c16m:2 inst="ILI9488Rgb565 (480 rows)" bounds="same" timeout=400 mem=4
h!(c16_ili9488_565, 20, scroll_h(ILI9488Rgb565));
//@ props=C16 pick=c16m:2 inst="ST7735s (162 rows)" bounds="same" timeout=400 mem=4
h!(c16_st7735s, 20, scroll_h(ST7735s));
//@ props=C16 pick=c16m:2 inst="ST7796 (480 rows)" bounds="same" timeout=400 mem=4
h!(c16_st7796, 20, scroll_h(ST7796));
//@ props=C16 pick=c16m:2 inst="RM67162 (536 rows)" bounds="same" timeout=400 mem=4
h!(c16_rm67162, 20, scroll_h(RM67162));
//@ props=C16 pick=c16m:2 inst="GC9107 (160 rows)" bounds="same" timeout=400 mem=4
h!(c16_gc9107, 20, scroll_h(GC9107));
//@ props=C16 pick=c16m:2 inst="GC9A01 (240 rows)" bounds="same" timeout=600 mem=4
h!(c16_gc9a01, 20, scroll_h(GC9A01));
const _U: Option<Rgb666> = None;
