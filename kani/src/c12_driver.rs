//! C12 (driver level + recovery) and C13 (sleep flag, 120 ms spacing over histories).
use crate::c01_placement::*;
use crate::c03_draw_iter::PxSrc;
use crate::env::*;
use crate::oracle::*;
use crate::sym::*;
use embedded_graphics_core::{pixelcolor::Rgb565, prelude::*, primitives::Rectangle};
use mipidsi::models::Model;
use mipidsi::Builder;

type Dsp<M> = mipidsi::Display<Ctl<u8, 0, true>, M, Pin>;

/// shadow of what the driver/controller state must be
struct Shadow {
    sleeping: bool,
    o: mipidsi::options::Orientation,
}

/// perform one symbolic driver operation; returns Err(()) if it reported a bus error.
/// ops 0..=6: sleep, wake, set_pixel, fill_solid, set_orientation, scroll region+offset, tearing
/// ops 7..=11: set_pixels (2 colours), fill_contiguous (<=2 colours), draw_iter (<=1 pixel), clear, scroll offset
fn step<M: Model<ColorFormat = Rgb565>>(d: &mut Dsp<M>, wp: *mut World, sh: &mut Shadow, op: u8) -> Result<(), ()> {
    let sz = d.size();
    let t0 = unsafe { (*wp).time_ns };
    let r: Result<(), E> = match op {
        0 => {
            let r = d.sleep(&mut Clock(wp));
            if r.is_ok() {
                sh.sleeping = true;
                assert!(unsafe { (*wp).time_ns } - t0 >= 120_000_000, "[C13] sleep waits >= 120 ms after sleep-in before returning");
            }
            r
        }
        1 => {
            let r = d.wake(&mut Clock(wp));
            if r.is_ok() {
                sh.sleeping = false;
                assert!(unsafe { (*wp).time_ns } - t0 >= 120_000_000, "[C13] wake waits >= 120 ms after sleep-out before returning");
            }
            r
        }
        2 => {
            let (x, y): (u16, u16) = (kani::any(), kani::any());
            kani::assume((x as u32) < sz.width && (y as u32) < sz.height);
            d.set_pixel(x, y, Rgb565::from_index(3))
        }
        3 => {
            let (rx, ry, rw, rh): (i32, i32, u32, u32) = (kani::any(), kani::any(), kani::any(), kani::any());
            kani::assume(rx >= -9 && rx <= 400 && ry >= -9 && ry <= 400 && rw <= 500 && rh <= 500);
            d.fill_solid(&Rectangle::new(Point::new(rx, ry), Size::new(rw, rh)), Rgb565::from_index(4))
        }
        4 => {
            let o = any_orientation();
            let r = d.set_orientation(o);
            if r.is_ok() {
                sh.o = o;
            }
            r
        }
        5 => {
            let r = d.set_vertical_scroll_region(kani::any(), kani::any());
            if r.is_ok() {
                d.set_vertical_scroll_offset(kani::any())
            } else {
                r
            }
        }
        6 => d.set_tearing_effect(any_tearing()),
        7 => {
            let (x, y): (u16, u16) = (kani::any(), kani::any());
            kani::assume((x as u32) + 1 < sz.width && (y as u32) < sz.height);
            d.set_pixels(x, y, x + 1, y, [Rgb565::from_index(5), Rgb565::from_index(6)])
        }
        8 => {
            let (rx, ry): (i32, i32) = (kani::any(), kani::any());
            kani::assume(rx >= -1 && rx <= 3 && ry >= -1 && ry <= 3);
            let n: u32 = kani::any();
            kani::assume(n <= 2);
            d.fill_contiguous(&Rectangle::new(Point::new(rx, ry), Size::new(2, 1)), Counter::<Rgb565>::new(n, 2))
        }
        9 => {
            let n: usize = kani::any();
            kani::assume(n <= 1);
            d.draw_iter(PxSrc::<1> { xs: [kani::any()], ys: [kani::any()], n, k: 0 })
        }
        10 => d.clear(Rgb565::from_index(9)),
        _ => d.set_vertical_scroll_offset(kani::any()),
    };
    let w = unsafe { &*wp };
    assert!(w.ops_after_fail == 0, "[C12] no bus operation after the failing one");
    match r {
        Ok(()) => {
            assert!(!w.failed, "[C12] a failed bus operation must be reported");
            Ok(())
        }
        Err(e) => {
            assert!(w.failed && e == E(E_IFACE), "[C12] the interface error is returned unchanged");
            Err(())
        }
    }
}

fn check_state<M: Model<ColorFormat = Rgb565>>(d: &mut Dsp<M>, sh: &Shadow) {
    assert!(d.is_sleeping() == sh.sleeping, "[C13] is_sleeping() = last successful of sleep/wake was sleep");
    let c = &unsafe { d.dcs() }.c;
    assert!(c.sleeping == sh.sleeping, "[C13] flag equals the controller sleep state from the commands actually sent");
    assert!(!c.slp_gap_bad, "[C13] sleep-in / sleep-out never less than 120 ms apart");
}

/// after the fault has cleared the same display object still draws correctly
fn recover<M: Model<ColorFormat = Rgb565>>(mut d: Dsp<M>, wp: *mut World, cfg: &mut Cfg, sh: &Shadow, probe: (u16, u16), failed_op: u8) {
    unsafe {
        (*wp).fail_at = NEVER;
        (*wp).failed = false;
    }
    if failed_op == 4 && kani::any() {
        // a failed set_orientation followed by a successful one: drawing is correct again
        let o = any_orientation();
        assert!(d.set_orientation(o).is_ok(), "[C12] set_orientation works again after the fault cleared");
        cfg.o = o;
        assert!(unsafe { d.dcs() }.c.madctl & 0xE0 == expected_madctl(mipidsi::options::ColorOrder::Rgb, o, Default::default()) & 0xE0, "[C12] retried set_orientation reaches the controller");
    } else if failed_op == 4 {
        // no retry: at this level a failed call did not reach the controller, so the display
        // must still report, and draw for, the orientation the controller really has
        cfg.o = sh.o;
        assert!(unsafe { d.dcs() }.c.madctl & 0xE0 == expected_madctl(mipidsi::options::ColorOrder::Rgb, sh.o, Default::default()) & 0xE0, "[C12] controller keeps the old address mode when set_orientation failed before reaching it");
    } else {
        cfg.o = sh.o;
    }
    assert!(d.orientation() == cfg.o, "[C12][C10] orientation() consistent with the controller after a failed call");
    {
        let c = &mut unsafe { d.dcs() }.c;
        c.arm();
        c.probe_writes = 0;
        c.ramwr_count = 0;
    }
    let sz = d.size();
    let (x, y): (u16, u16) = (kani::any(), kani::any());
    kani::assume((x as u32) < sz.width && (y as u32) < sz.height);
    assert!(d.set_pixel(x, y, Rgb565::from_index(77)).is_ok(), "[C12] drawing works again after the fault cleared");
    let (ctl, _, _) = d.release();
    let c = &ctl.c;
    assert_framing(c);
    if cfg.exp(x, y) == probe {
        assert!(c.probe_writes == 1 && c.probe_val == Rgb565::from_index(77).wire(), "[C12] after the fault cleared the display still draws correctly");
    } else {
        assert!(c.probe_writes == 0, "[C12] after the fault cleared no stray cell is written");
    }
}

fn history_h<M: Model<ColorFormat = Rgb565>>(m: M, steps: usize, fixed_op: u8, nops: u8, with_recovery: bool) {
    let probe = any_probe::<M>();
    let mut world = World::new(NEVER);
    let wp: *mut World = &mut world;
    let (fw, fh) = M::FRAMEBUFFER_SIZE;
    let mut cfg = any_cfg();
    let ctl = Ctl::<u8, 0, true>::new(wp, fw, fh, probe);
    let Ok(mut d) = Builder::new(m, ctl)
        .display_size(cfg.w, cfg.h)
        .display_offset(cfg.ox, cfg.oy)
        .orientation(cfg.o)
        .reset_pin(Pin)
        .init(&mut Clock(wp))
    else {
        return;
    };
    let mut sh = Shadow { sleeping: false, o: cfg.o };
    check_state(&mut d, &sh);
    // both values of the sleep flag are start states
    if kani::any() {
        assert!(d.sleep(&mut Clock(wp)).is_ok(), "[C13] fault-free sleep");
        sh.sleeping = true;
        check_state(&mut d, &sh);
    }
    // symbolic fault position among the calls that follow
    let k: u32 = kani::any();
    world.fail_at = if k < 64 { world.ops + k } else { NEVER };
    let mut i = 0;
    let mut last_op = 0u8;
    let mut failed = false;
    while i < steps {
        // a symbolic choice is only ever between sleep and wake, so that symbolic execution
        // does not have to walk through all twelve operations at every step
        let choice: u8 = kani::any();
        let op: u8 = if fixed_op < 255 {
            fixed_op
        } else if choice == 0 {
            0
        } else if choice == 1 {
            1
        } else if choice == 2 && nops > 2 {
            2
        } else if nops > 2 {
            4
        } else {
            1
        };
        last_op = op;
        // every call site passes a constant operation
        let r = if fixed_op < 255 {
            step(&mut d, wp, &mut sh, fixed_op)
        } else if choice == 0 {
            step(&mut d, wp, &mut sh, 0)
        } else if choice == 1 {
            step(&mut d, wp, &mut sh, 1)
        } else if choice == 2 && nops > 2 {
            step(&mut d, wp, &mut sh, 2)
        } else if nops > 2 {
            step(&mut d, wp, &mut sh, 4)
        } else {
            step(&mut d, wp, &mut sh, 1)
        };
        if r.is_err() {
            failed = true;
            check_state(&mut d, &sh);
            break;
        }
        check_state(&mut d, &sh);
        i += 1;
    }
    kani::cover!(failed, "cover: an operation fails");
    kani::cover!(!failed && (sh.sleeping || fixed_op == 1), "cover: fault-free history ending asleep (awake after wake)");
    if with_recovery {
        recover(d, wp, &mut cfg, &sh, probe, if failed { last_op } else { 255 });
    }
}

macro_rules! h {
    ($name:ident, $unw:expr, $body:expr) => {
        #[kani::proof]
        #[kani::unwind($unw)]
        fn $name() {
            $body
        }
    };
}
type V = VModel<Rgb565, 240, 320>;
//@ props=C13,C12,C10 inst="VModel<Rgb565,240,320>: optional sleep, then 3 symbolic operations over {sleep, wake, set_pixel, set_orientation}" bounds="both flag values as start state, 3 steps, symbolic failing call, all cfgs; then recovery drawing checked on every cell" timeout=1800 mem=12
h!(c13_history_v, 5, history_h(V::new(), 3, 255, 4, true));
//@ props=C13,C12 tier=thorough inst="VModel<Rgb565,240,320>: optional sleep, then 5 symbolic operations over {sleep, wake}" bounds="5 steps, symbolic failing call" timeout=3000 mem=12
h!(c13_history_v5, 7, history_h(V::new(), 5, 255, 2, false));
//@ props=C13,C12 tier=thorough inst="ST7789 (real init): same history" bounds="same; unwind 20" timeout=3000 mem=10
h!(c13_history_st7789, 20, history_h(mipidsi::models::ST7789, 3, 255, 4, true));
//@ props=C12,C13 inst="Display::sleep" bounds="from either flag value, symbolic failing call, then recovery; all cfgs" timeout=900 mem=6
h!(c12_m_sleep, 5, history_h(V::new(), 1, 0, 12, true));
//@ props=C12,C13 inst="Display::wake" bounds="same" timeout=900 mem=6
h!(c12_m_wake, 5, history_h(V::new(), 1, 1, 12, true));
//@ props=C12,C13 inst="Display::set_pixel" bounds="same" timeout=900 mem=6
h!(c12_m_set_pixel, 5, history_h(V::new(), 1, 2, 12, true));
//@ props=C12 inst="DrawTarget::fill_solid" bounds="same" timeout=900 mem=6
h!(c12_m_fill_solid, 5, history_h(V::new(), 1, 3, 12, true));
//@ props=C12,C13,C10 inst="Display::set_orientation" bounds="same; recovery = a later successful set_orientation, then drawing" timeout=900 mem=6
h!(c12_m_set_orientation, 5, history_h(V::new(), 1, 4, 12, true));
//@ props=C12 inst="Display::set_vertical_scroll_region + set_vertical_scroll_offset" bounds="same" timeout=900 mem=6
h!(c12_m_scroll, 5, history_h(V::new(), 1, 5, 12, true));
//@ props=C12 inst="Display::set_tearing_effect" bounds="same" timeout=900 mem=6
h!(c12_m_tearing, 5, history_h(V::new(), 1, 6, 12, true));
//@ props=C12 inst="Display::set_pixels (2 colours)" bounds="same" timeout=900 mem=6
h!(c12_m_set_pixels, 5, history_h(V::new(), 1, 7, 12, true));
//@ props=C12 inst="DrawTarget::fill_contiguous (2x1 rectangle, <= 2 colours)" bounds="same" timeout=1200 mem=8
h!(c12_m_fill_contiguous, 6, history_h(V::new(), 1, 8, 12, true));
//@ props=C12 cfg=smallcap required=no inst="DrawTarget::draw_iter (<= 1 pixel, any i32 coordinates; capacities 4/8 under hook H4)" bounds="same" timeout=1800 mem=16
h!(c12_m_draw_iter, 3, history_h(V::new(), 1, 9, 12, true));
//@ props=C12 inst="DrawTarget::clear" bounds="same" timeout=900 mem=6
h!(c12_m_clear, 5, history_h(V::new(), 1, 10, 12, true));
