//! C15: orientation operations compose like rectangle symmetries; angle parsing is total.
use crate::c01_placement::*;
use crate::env::*;
use crate::oracle::*;
use crate::sym::*;
use embedded_graphics_core::{pixelcolor::Rgb565, prelude::*};
use mipidsi::options::{Orientation, Rotation};

/// apply operation `op` (0..=3 rotate by 0/90/180/270, 4 flip_horizontal, 5 flip_vertical)
fn apply(o: Orientation, op: u8) -> Orientation {
    match op {
        0 => o.rotate(Rotation::Deg0),
        1 => o.rotate(Rotation::Deg90),
        2 => o.rotate(Rotation::Deg180),
        3 => o.rotate(Rotation::Deg270),
        4 => o.flip_horizontal(),
        _ => o.flip_vertical(),
    }
}
/// where pixel (x,y) of a W x H picture goes when the picture is pre-rotated clockwise /
/// pre-mirrored (left-right for horizontal, top-bottom for vertical)
fn pre(op: u8, wd: u16, ht: u16, x: u16, y: u16) -> (u16, u16) {
    match op {
        0 => (x, y),
        1 => (ht - 1 - y, x),
        2 => (wd - 1 - x, ht - 1 - y),
        3 => (y, wd - 1 - x),
        4 => (wd - 1 - x, y),
        _ => (x, ht - 1 - y),
    }
}

fn geometry_h<const FW: u16, const FH: u16>() {
    let probe = any_probe::<VModel<Rgb565, FW, FH>>();
    let mut world = World::new(NEVER);
    let mut cfg = any_cfg();
    let base = cfg.o;
    let op: u8 = kani::any();
    kani::assume(op < 6);
    cfg.o = apply(base, op);
    let Some(mut d) = build::<_, u8, 0, false>(VModel::<Rgb565, FW, FH>::new(), &mut world, probe, &cfg) else {
        return;
    };
    let sz = d.size();
    let (x, y): (u16, u16) = (kani::any(), kani::any());
    kani::assume((x as u32) < sz.width && (y as u32) < sz.height);
    d.set_pixel(x, y, Rgb565::from_index(7)).unwrap();
    let (ctl, _, _) = d.release();
    // the same picture, pre-transformed, under the original orientation
    let (tx, ty) = pre(op, sz.width as u16, sz.height as u16, x, y);
    let (bw, bh) = logical_size(base, cfg.w, cfg.h);
    assert!(tx < bw && ty < bh, "[C15] pre-transformed point lies in the original logical box");
    let e = expected(base, cfg.w, cfg.h, cfg.ox, cfg.oy, tx, ty);
    if e == probe {
        assert!(ctl.c.probe_writes == 1, "[C15] extended orientation shows the pre-transformed picture");
    } else {
        assert!(ctl.c.probe_writes == 0, "[C15] extended orientation shows the pre-transformed picture (no stray cell)");
    }
    kani::cover!(e == probe && op == 5 && base.mirrored && cfg.w != cfg.h, "cover: flip_vertical of a mirrored base, hit");
    kani::cover!(e == probe && op == 1, "cover: quarter turn, hit");
}

#[kani::proof]
//@ props=C15 inst="Orientation / Rotation API" bounds="loop-free: all 8 orientations x all pairs of rotations; one-step laws + closure of the 8-element group give all words" timeout=300 mem=3
fn c15_laws() {
    let o = any_orientation();
    let (a, b) = (any_rotation(), any_rotation());
    let sum = (a.degree() + b.degree()) % 360;
    assert!(o.rotate(a).rotate(b).rotation.degree() == (o.rotation.degree() + sum) % 360, "[C15] rotations add modulo 360");
    assert!(o.rotate(a).rotate(b) == o.rotate(Rotation::try_from_degree(sum).unwrap()), "[C15] rotate(a).rotate(b) = rotate(a+b mod 360)");
    assert!(o.rotate(a).mirrored == o.mirrored, "[C15] rotation keeps the mirror flag");
    let q = Rotation::Deg90;
    assert!(o.rotate(q).rotate(q).rotate(q).rotate(q) == o, "[C15] four quarter turns are the identity");
    assert!(o.rotate(Rotation::Deg0) == o, "[C15] rotate(0) is the identity");
    assert!(o.flip_horizontal().flip_horizontal() == o, "[C15] two horizontal flips are the identity");
    assert!(o.flip_vertical().flip_vertical() == o, "[C15] two vertical flips are the identity");
    assert!(o.flip_horizontal().flip_vertical() == o.rotate(Rotation::Deg180), "[C15] horizontal then vertical flip = half turn");
    assert!(o.flip_vertical().flip_horizontal() == o.rotate(Rotation::Deg180), "[C15] vertical then horizontal flip = half turn");
    assert!(Orientation::new() == Orientation::default() && !Orientation::new().mirrored && Orientation::new().rotation == Rotation::Deg0, "[C15] default orientation");
    kani::cover!(a == Rotation::Deg270 && b == Rotation::Deg270, "cover: 270+270");
}

#[kani::proof]
//@ props=C15 inst="Rotation::try_from_degree" bounds="loop-free: all 2^32 i32 angles" timeout=400 mem=3
fn c15_try_from_degree() {
    let a: i32 = kani::any();
    let r = Rotation::try_from_degree(a);
    let div = (a as i64).rem_euclid(90) == 0;
    match r {
        Ok(rot) => {
            assert!(div, "[C15] Ok only for multiples of 90");
            assert!((a as i64 - rot.degree() as i64).rem_euclid(360) == 0, "[C15] result congruent to the angle modulo 360");
            assert!(rot.degree() >= 0 && rot.degree() < 360 && rot.degree() % 90 == 0, "[C15] degree() is one of 0 90 180 270");
        }
        Err(_) => assert!(!div, "[C15] every multiple of 90 is accepted"),
    }
    kani::cover!(r.is_ok() && a < -100000, "cover: large negative multiple");
    kani::cover!(r.is_ok() && a > 3000000, "cover: large positive multiple");
}

#[kani::proof]
//@ props=C15 inst="Rotation::degree / try_from_degree round trip" bounds="all 4 rotations" timeout=300 mem=3
fn c15_degree_roundtrip() {
    let r = any_rotation();
    assert!(Rotation::try_from_degree(r.degree()) == Ok(r), "[C15] try_from_degree(degree(r)) = r");
    assert!(r.is_horizontal() != r.is_vertical(), "[C15] horizontal xor vertical");
    assert!(r.is_vertical() == (r.degree() == 90 || r.degree() == 270), "[C15] vertical = 90 or 270");
    kani::cover!(r == Rotation::Deg270, "cover");
}

macro_rules! h {
    ($name:ident, $unw:expr, $body:expr) => {
        #[kani::proof]
        #[kani::unwind($unw)]
        fn $name() {
            $body
        }
    };
}
//@ props=C15 inst="VModel<Rgb565,3,2> through the real Display" bounds="loop-free: all cfgs, 8 base orientations x 6 operations, all in-bounds points, every cell" timeout=600 mem=4
h!(c15_geometry_v3x2, 3, geometry_h::<3, 2>());
//@ props=C15 inst="VModel<Rgb565,240,320> through the real Display" bounds="same" timeout=600 mem=4
h!(c15_geometry_v240x320, 3, geometry_h::<240, 320>());
