//! C01 (+ framing C08, single window set-up C20, clipping C02): placement of drawn pixels.
use crate::env::*;
use crate::oracle::*;
use crate::sym::*;
use embedded_graphics_core::{prelude::*, primitives::Rectangle};
use mipidsi::{
    interface::InterfacePixelFormat,
    models::Model,
    options::Orientation,
    Builder, Display,
};

pub struct Cfg {
    pub w: u16,
    pub h: u16,
    pub ox: u16,
    pub oy: u16,
    pub o: Orientation,
}
pub fn any_cfg() -> Cfg {
    Cfg {
        w: kani::any(),
        h: kani::any(),
        ox: kani::any(),
        oy: kani::any(),
        o: any_orientation(),
    }
}
impl Cfg {
    #[inline(always)]
    pub fn exp(&self, x: u16, y: u16) -> (u16, u16) {
        expected(self.o, self.w, self.h, self.ox, self.oy, x, y)
    }
    #[inline(always)]
    pub fn inv(&self, cell: (u16, u16)) -> Option<(u16, u16)> {
        inv_expected(self.o, self.w, self.h, self.ox, self.oy, cell)
    }
}

pub type D<M, W, const K: u8, const FAST: bool> = Display<Ctl<W, K, FAST>, M, Pin>;

/// Build a display through the real Builder; None if init rejects the configuration.
pub fn build<M: Model, W: WordLike, const K: u8, const FAST: bool>(
    m: M,
    wp: *mut World,
    probe: (u16, u16),
    cfg: &Cfg,
) -> Option<D<M, W, K, FAST>>
where
    M::ColorFormat: InterfacePixelFormat<W>,
{
    let (fw, fh) = M::FRAMEBUFFER_SIZE;
    let ctl = Ctl::<W, K, FAST>::new(wp, fw, fh, probe);
    let r = Builder::new(m, ctl)
        .display_size(cfg.w, cfg.h)
        .display_offset(cfg.ox, cfg.oy)
        .orientation(cfg.o)
        .reset_pin(Pin)
        .init(&mut NoDelay);
    match r {
        Ok(mut d) => {
            unsafe { d.dcs() }.c.arm();
            Some(d)
        }
        Err(_) => None,
    }
}

/// Full builder access: all options symbolic; the framing monitor is not armed.
pub fn build_opts<M: Model, W: WordLike, const K: u8, const FAST: bool>(
    m: M,
    wp: *mut World,
    probe: (u16, u16),
    cfg: &Cfg,
    co: mipidsi::options::ColorOrder,
    ro: mipidsi::options::RefreshOrder,
) -> Option<D<M, W, K, FAST>>
where
    M::ColorFormat: InterfacePixelFormat<W>,
{
    let (fw, fh) = M::FRAMEBUFFER_SIZE;
    let ctl = Ctl::<W, K, FAST>::new(wp, fw, fh, probe);
    Builder::new(m, ctl)
        .display_size(cfg.w, cfg.h)
        .display_offset(cfg.ox, cfg.oy)
        .orientation(cfg.o)
        .color_order(co)
        .refresh_order(ro)
        .reset_pin(Pin)
        .init(&mut NoDelay)
        .ok()
}

pub fn any_probe<M: Model>() -> (u16, u16) {
    let p: (u16, u16) = (kani::any(), kani::any());
    kani::assume(p.0 < M::FRAMEBUFFER_SIZE.0 && p.1 < M::FRAMEBUFFER_SIZE.1);
    p
}

pub fn assert_framing(c: &Core) {
    crate::indep! { assert!(!c.f_nowr, "[C08] pixel data without memory-write-start"); }
    crate::indep! { assert!(!c.f_plen, "[C08] address command without exactly four parameter bytes"); }
    crate::indep! { assert!(!c.f_sgt, "[C08] window start > end"); }
    crate::indep! { assert!(!c.f_beyond, "[C08][C02] window end / write outside the controller framebuffer"); }
    crate::indep! { assert!(!c.f_order, "[C08] group not in order CASET, RASET, RAMWR, pixels"); }
    crate::indep! { assert!(!c.f_foreign, "[C08] non-drawing command inside a drawing call"); }
}

/// set_pixel: every configuration accepted by init, every orientation, every in-bounds
/// point, every cell.
pub fn set_pixel_h<M: Model, W: WordLike, const K: u8>(m: M)
where
    M::ColorFormat: InterfacePixelFormat<W> + Wire,
{
    let probe = any_probe::<M>();
    let mut world = World::new(NEVER);
    let cfg = any_cfg();
    let Some(mut d) = build::<M, W, K, false>(m, &mut world, probe, &cfg) else {
        return;
    };
    let sz = d.size();
    let (lw, lh) = logical_size(cfg.o, cfg.w, cfg.h);
    assert!(sz.width == lw as u32 && sz.height == lh as u32, "[C01][C10] size() is the oriented display size");
    let (x, y): (u16, u16) = (kani::any(), kani::any());
    kani::assume((x as u32) < sz.width && (y as u32) < sz.height);
    let col = <M::ColorFormat as Wire>::any();
    let r = d.set_pixel(x, y, col);
    assert!(r.is_ok(), "[C01][C02] no error without a bus fault");
    let (ctl, _, _) = d.release();
    let c = &ctl.c;
    assert_framing(c);
    crate::indep! { assert!(!c.f_overrun, "[C08] more pixel data than the window holds"); }
    let e = cfg.exp(x, y);
    if e == probe {
        assert!(c.probe_writes == 1 && c.probe_val == col.wire(), "[C01][C05][C19] pixel lands at the oriented, offset cell with its colour");
    } else {
        assert!(c.probe_writes == 0, "[C01] no other cell changes");
    }
    assert!(c.pixels == 1, "[C01] exactly one pixel written");
    crate::indep! { assert!(c.ramwr_count == 1 && c.caset_count == 1 && c.raset_count == 1, "[C20] one window set-up"); }
    kani::cover!(e == probe && cfg.o.mirrored, "cover: hit, mirrored");
    kani::cover!(e == probe && !cfg.o.mirrored && cfg.w == M::FRAMEBUFFER_SIZE.0, "cover: hit, full width");
}

/// two set_pixel calls: last write wins, controller state carried across calls.
pub fn two_calls_h<M: Model, W: WordLike, const K: u8>(m: M)
where
    M::ColorFormat: InterfacePixelFormat<W> + Wire,
{
    let probe = any_probe::<M>();
    let mut world = World::new(NEVER);
    let cfg = any_cfg();
    let Some(mut d) = build::<M, W, K, false>(m, &mut world, probe, &cfg) else {
        return;
    };
    let sz = d.size();
    let (x1, y1, x2, y2): (u16, u16, u16, u16) = (kani::any(), kani::any(), kani::any(), kani::any());
    kani::assume((x1 as u32) < sz.width && (y1 as u32) < sz.height);
    kani::assume((x2 as u32) < sz.width && (y2 as u32) < sz.height);
    let c1 = <M::ColorFormat as Wire>::any();
    let c2 = <M::ColorFormat as Wire>::any();
    d.set_pixel(x1, y1, c1).unwrap();
    d.set_pixel(x2, y2, c2).unwrap();
    let (ctl, _, _) = d.release();
    let c = &ctl.c;
    assert_framing(c);
    let h1 = cfg.exp(x1, y1) == probe;
    let h2 = cfg.exp(x2, y2) == probe;
    assert!(c.probe_writes == h1 as u32 + h2 as u32, "[C01] write count per cell");
    if h2 {
        assert!(c.probe_val == c2.wire(), "[C01] last write wins");
    } else if h1 {
        assert!(c.probe_val == c1.wire(), "[C01] earlier write survives when not overwritten");
    }
    kani::cover!(h1 && h2, "cover: overwrite of the same cell");
    kani::cover!(h1 && !h2, "cover: first only");
}

/// colour source whose length is symbolic but whose loop counter is concrete
pub struct Counter<C: Wire> {
    pub k: u32,
    pub n: u32,
    pub max: u32,
    pub pulled: u32,
    pub _p: core::marker::PhantomData<C>,
}
impl<C: Wire> Counter<C> {
    pub fn new(n: u32, max: u32) -> Self {
        Counter { k: 0, n, max, pulled: 0, _p: core::marker::PhantomData }
    }
}
impl<C: Wire> Iterator for Counter<C> {
    type Item = C;
    fn next(&mut self) -> Option<C> {
        let k = self.k;
        self.k = self.k.saturating_add(1);
        self.pulled += 1;
        if k < self.max && k < self.n {
            Some(C::from_index(k))
        } else {
            None
        }
    }
    /// O(1) skip (same result as the default implementation)
    fn nth(&mut self, n: usize) -> Option<C> {
        let n = if n > u32::MAX as usize { u32::MAX } else { n as u32 };
        self.k = self.k.saturating_add(n);
        self.next()
    }
}

/// set_pixels on a symbolic in-bounds rectangle with exactly `area` index-encoding colours.
pub fn set_pixels_rect_h<M: Model, W: WordLike, const K: u8>(m: M, max_area: u32)
where
    M::ColorFormat: InterfacePixelFormat<W> + Wire,
{
    let probe = any_probe::<M>();
    let mut world = World::new(NEVER);
    let cfg = any_cfg();
    let Some(mut d) = build::<M, W, K, false>(m, &mut world, probe, &cfg) else {
        return;
    };
    let sz = d.size();
    let (sx, sy, ex, ey): (u16, u16, u16, u16) = (kani::any(), kani::any(), kani::any(), kani::any());
    kani::assume(sx <= ex && (ex as u32) < sz.width && sy <= ey && (ey as u32) < sz.height);
    let rw = (ex - sx) as u32 + 1;
    let rh = (ey - sy) as u32 + 1;
    let area = rw * rh;
    kani::assume(area <= max_area);
    d.set_pixels(sx, sy, ex, ey, Counter::<M::ColorFormat>::new(area, max_area)).unwrap();
    let (ctl, _, _) = d.release();
    let c = &ctl.c;
    assert_framing(c);
    crate::indep! { assert!(!c.f_overrun, "[C08] more pixel data than the window holds"); }
    assert!(c.pixels == area, "[C01] all colours written");
    match cfg.inv(probe) {
        Some((x, y)) if x >= sx && x <= ex && y >= sy && y <= ey => {
            let k = (y - sy) as u32 * rw + (x - sx) as u32;
            assert!(c.probe_writes == 1 && c.probe_val == M::ColorFormat::from_index(k).wire(), "[C01] k-th colour on k-th point (row-major)");
            kani::cover!(rw > 1 && rh > 1 && k > 2, "cover: 2-D rectangle, later pixel");
        }
        _ => assert!(c.probe_writes == 0, "[C01] no cell outside the rectangle changes"),
    }
}

fn any_rect() -> Rectangle {
    let (rx, ry, rw, rh): (i32, i32, u32, u32) = (kani::any(), kani::any(), kani::any(), kani::any());
    // rectangles embedded-graphics itself can handle: bottom_right() computable
    kani::assume(rw <= i32::MAX as u32 && rh <= i32::MAX as u32);
    kani::assume((rx as i64) + (rw as i64) <= i32::MAX as i64 && (ry as i64) + (rh as i64) <= i32::MAX as i64);
    Rectangle::new(Point::new(rx, ry), Size::new(rw, rh))
}
#[inline(always)]
fn rect_contains(r: &Rectangle, x: u16, y: u16) -> bool {
    let (x, y) = (x as i64, y as i64);
    x >= r.top_left.x as i64
        && x < r.top_left.x as i64 + r.size.width as i64
        && y >= r.top_left.y as i64
        && y < r.top_left.y as i64 + r.size.height as i64
}

/// fill_solid with a fully symbolic rectangle (closed-form repeat model, no loop).
pub fn fill_solid_h<M: Model, W: WordLike, const K: u8>(m: M)
where
    M::ColorFormat: InterfacePixelFormat<W> + Wire,
{
    let probe = any_probe::<M>();
    let mut world = World::new(NEVER);
    let cfg = any_cfg();
    let Some(mut d) = build::<M, W, K, true>(m, &mut world, probe, &cfg) else {
        return;
    };
    let rect = any_rect();
    let col = <M::ColorFormat as Wire>::any();
    let r = d.fill_solid(&rect, col);
    assert!(r.is_ok(), "[C02] no error without a bus fault");
    let bb = d.bounding_box();
    let (ctl, _, _) = d.release();
    let c = &ctl.c;
    assert_framing(c);
    crate::indep! { assert!(!c.f_overrun, "[C08] more pixel data than the window holds"); }
    let nonempty = !rect.intersection(&bb).is_zero_sized();
    crate::indep! { assert!(c.ramwr_count == nonempty as u32 && c.caset_count == nonempty as u32 && c.raset_count == nonempty as u32, "[C20] exactly one window set-up per non-empty fill, none otherwise"); }
    match cfg.inv(probe) {
        Some((x, y)) if rect_contains(&rect, x, y) => {
            assert!(c.probe_writes == 1 && c.probe_val == col.wire(), "[C01] every in-bounds point of the rectangle is filled");
            kani::cover!(rect.top_left.x < 0 && rect.top_left.y > 0, "cover: clipped left");
        }
        _ => assert!(c.probe_writes == 0, "[C01][C02] nothing outside rectangle ∩ bounding box changes"),
    }
}

/// clear(): the whole panel window and nothing else.
pub fn clear_h<M: Model, W: WordLike, const K: u8>(m: M)
where
    M::ColorFormat: InterfacePixelFormat<W> + Wire,
{
    let probe = any_probe::<M>();
    let mut world = World::new(NEVER);
    let cfg = any_cfg();
    let Some(mut d) = build::<M, W, K, true>(m, &mut world, probe, &cfg) else {
        return;
    };
    let col = <M::ColorFormat as Wire>::any();
    d.clear(col).unwrap();
    let (ctl, _, _) = d.release();
    let c = &ctl.c;
    assert_framing(c);
    crate::indep! { assert!(!c.f_overrun, "[C08] more pixel data than the window holds"); }
    crate::indep! { assert!(c.ramwr_count == 1 && c.caset_count == 1 && c.raset_count == 1, "[C20] one window set-up per clear"); }
    assert!(c.pixels == cfg.w as u32 * cfg.h as u32, "[C01] clear sends w*h pixels");
    match cfg.inv(probe) {
        Some(_) => assert!(c.probe_writes == 1 && c.probe_val == col.wire(), "[C01] clear paints every panel cell"),
        None => assert!(c.probe_writes == 0, "[C01][C02] clear touches nothing outside the panel window"),
    }
    kani::cover!(cfg.inv(probe).is_none(), "cover: cell outside window");
    kani::cover!(cfg.inv(probe).is_some() && cfg.o.mirrored, "cover: cell inside window");
}

/// fill_contiguous: colour k on point k under any clipping (C04), placement (C01).
pub fn fill_contiguous_h<M: Model, W: WordLike, const K: u8>(m: M, lo: i32, hi: i32, maxs: u32, maxn: u32)
where
    M::ColorFormat: InterfacePixelFormat<W> + Wire,
{
    let probe = any_probe::<M>();
    let mut world = World::new(NEVER);
    let cfg = any_cfg();
    let Some(mut d) = build::<M, W, K, false>(m, &mut world, probe, &cfg) else {
        return;
    };
    let (rx, ry, rw, rh): (i32, i32, u32, u32) = (kani::any(), kani::any(), kani::any(), kani::any());
    kani::assume(rx >= lo && rx <= hi && ry >= lo && ry <= hi && rw <= maxs && rh <= maxs);
    let n: u32 = kani::any();
    kani::assume(n <= maxn);
    let rect = Rectangle::new(Point::new(rx, ry), Size::new(rw, rh));
    let mut src = Counter::<M::ColorFormat>::new(n, maxn);
    let r = d.fill_contiguous(&rect, &mut src);
    assert!(r.is_ok(), "[C04][C02] Ok without a bus fault, also when the stream ends early");
    assert!(src.pulled <= maxn + 2, "[C04] terminates: bounded number of colours pulled");
    let bb = d.bounding_box();
    let (ctl, _, _) = d.release();
    let c = &ctl.c;
    assert_framing(c);
    crate::indep! { assert!(!c.f_overrun, "[C08] more pixel data than the window holds"); }
    let nonempty = !rect.intersection(&bb).is_zero_sized();
    crate::indep! { assert!(c.ramwr_count == nonempty as u32 && c.caset_count == nonempty as u32, "[C20] exactly one window set-up per non-empty fill, none otherwise"); }
    match cfg.inv(probe) {
        Some((x, y)) if rect_contains(&rect, x, y) => {
            let k = ((y as i32 - ry) as u32) * rw + (x as i32 - rx) as u32;
            if k < n {
                assert!(c.probe_writes == 1 && c.probe_val == M::ColorFormat::from_index(k).wire(), "[C04][C01][C02] colour k lands on point k: the visible remainder is drawn as if the clipped part had not been supplied");
            } else {
                assert!(c.probe_writes == 0, "[C04] points beyond the end of the stream stay untouched");
            }
            kani::cover!(k < n && rx < 0 && ry < 0, "cover: clipped top-left, drawn");
            kani::cover!(k >= n, "cover: stream ended early");
        }
        _ => assert!(c.probe_writes == 0, "[C04][C02] clipped colours are skipped, nothing else is written"),
    }
}

/// fill_contiguous with rectangles far away from / much larger than the display: arbitrary
/// i32 position, width up to 200000 (more than 65536 clipped columns per row), few visible
/// points.  The colour source skips in O(1), so there is no input-dependent loop.
pub fn fill_contiguous_wide_h<M: Model, W: WordLike, const K: u8>(m: M)
where
    M::ColorFormat: InterfacePixelFormat<W> + Wire,
{
    let probe = any_probe::<M>();
    let mut world = World::new(NEVER);
    let cfg = any_cfg();
    let Some(mut d) = build::<M, W, K, false>(m, &mut world, probe, &cfg) else {
        return;
    };
    let (rx, ry, rw, rh): (i32, i32, u32, u32) = (kani::any(), kani::any(), kani::any(), kani::any());
    kani::assume(rw <= 200_000 && rh <= 3);
    kani::assume((rx as i64) + (rw as i64) <= i32::MAX as i64 && (ry as i64) + (rh as i64) <= i32::MAX as i64);
    let n: u32 = kani::any();
    let rect = Rectangle::new(Point::new(rx, ry), Size::new(rw, rh));
    let mut src = Counter::<M::ColorFormat>::new(n, u32::MAX);
    let r = d.fill_contiguous(&rect, &mut src);
    assert!(r.is_ok(), "[C04][C02] Ok without a bus fault");
    assert!(src.pulled <= 8, "[C04] terminates: colours pulled only for visible points (+ skips)");
    let (ctl, _, _) = d.release();
    let c = &ctl.c;
    assert_framing(c);
    crate::indep! { assert!(!c.f_overrun, "[C08] more pixel data than the window holds"); }
    match cfg.inv(probe) {
        Some((x, y)) if rect_contains(&rect, x, y) => {
            let k = ((y as i64 - ry as i64) as u64) * rw as u64 + (x as i64 - rx as i64) as u64;
            if k < n as u64 {
                assert!(c.probe_writes == 1 && c.probe_val == M::ColorFormat::from_index(k as u32).wire(), "[C04] colour k lands on point k also when more than 65535 colours are clipped per row");
            } else {
                assert!(c.probe_writes == 0, "[C04] points beyond the end of the stream stay untouched");
            }
            kani::cover!(k < n as u64 && rx < -66000 && y as i64 > ry as i64, "cover: second visible row of a rectangle starting > 65536 columns left of the display");
        }
        _ => assert!(c.probe_writes == 0, "[C04][C02] nothing outside rectangle and display changes"),
    }
    kani::cover!(rx > 70000, "cover: rectangle far to the right");
}

use crate::sym::VModel;
use embedded_graphics_core::pixelcolor::{Rgb565, Rgb666};
type V565<const FW: u16, const FH: u16> = VModel<Rgb565, FW, FH>;
type V666<const FW: u16, const FH: u16> = VModel<Rgb666, FW, FH>;

macro_rules! h {
    ($name:ident, $unw:expr, $body:expr) => {
        #[kani::proof]
        #[kani::unwind($unw)]
        fn $name() {
            $body
        }
    };
}

// ---- set_pixel: external model at the extreme and typical sizes, three colour/bus pairs
//@ props=C01,C20,C05 inst="VModel<Rgb565,1,1>/u8/Serial4Line" bounds="loop-free: all (w,h,ox,oy) in u16^4 accepted by init, 8 orientations, all in-bounds (x,y), all colours, every framebuffer cell" timeout=300 mem=4
h!(c01_set_pixel_v1x1, 3, set_pixel_h::<_, u8, 0>(V565::<1, 1>::new()));
//@ props=C01,C20,C05 inst="VModel<Rgb565,65535,65535>/u8/Serial4Line" bounds="same" timeout=300 mem=4
h!(c01_set_pixel_vmax, 3, set_pixel_h::<_, u8, 0>(V565::<65535, 65535>::new()));
//@ props=C01,C08,C20,C05,C19 inst="VModel<Rgb565,240,320>/u8/Serial4Line" bounds="same" timeout=300 mem=4
h!(c01_set_pixel_v240x320, 3, set_pixel_h::<_, u8, 0>(V565::<240, 320>::new()));
//@ props=C01,C08 tier=thorough inst="VModel<Rgb565,1,65535>/u8/Parallel8Bit" bounds="same" timeout=600 mem=4
h!(c01_set_pixel_v1xmax, 3, set_pixel_h::<_, u8, 1>(V565::<1, 65535>::new()));
//@ props=C01,C08 tier=thorough inst="VModel<Rgb565,65535,1>/u8/Parallel8Bit" bounds="same" timeout=600 mem=4
h!(c01_set_pixel_vmaxx1, 3, set_pixel_h::<_, u8, 1>(V565::<65535, 1>::new()));
//@ props=C01,C08 tier=thorough inst="VModel<Rgb565,3,2>/u8/Serial4Line" bounds="same" timeout=600 mem=4
h!(c01_set_pixel_v3x2, 3, set_pixel_h::<_, u8, 0>(V565::<3, 2>::new()));
//@ props=C01,C05 inst="VModel<Rgb666,320,480>/u8/Serial4Line" bounds="same, 3-byte pixels" timeout=300 mem=4
h!(c01_set_pixel_v666_320x480, 5, set_pixel_h::<_, u8, 0>(V666::<320, 480>::new()));
//@ props=C01,C05 inst="VModel<Rgb565,320,240>/u16/Parallel16Bit" bounds="same, one 16-bit word per pixel" timeout=300 mem=4
h!(c01_set_pixel_v16_320x240, 3, set_pixel_h::<_, u16, 2>(V565::<320, 240>::new()));
//@ props=C01,C08 tier=thorough inst="VModel<Rgb565,65535,65535>/u16/Parallel16Bit" bounds="same" timeout=600 mem=4
h!(c01_set_pixel_v16_max, 3, set_pixel_h::<_, u16, 2>(V565::<65535, 65535>::new()));

//@ props=C01,C08 inst="VModel<Rgb565,240,320>/u8" bounds="two symbolic set_pixel calls (possibly the same cell), controller state carried across; all cfgs" timeout=400 mem=4
h!(c01_two_calls_v240x320, 3, two_calls_h::<_, u8, 0>(V565::<240, 320>::new()));
//@ props=C01,C08 tier=thorough inst="VModel<Rgb565,3,2>/u8" bounds="same" timeout=600 mem=4
h!(c01_two_calls_v3x2, 3, two_calls_h::<_, u8, 0>(V565::<3, 2>::new()));

//@ props=C01,C08 inst="VModel<Rgb565,4,3>/u8" bounds="set_pixels on every in-bounds sub-rectangle (area<=12) with exactly area colours; unwind 14; all cfgs" timeout=900 mem=6
h!(c01_set_pixels_rect_v4x3, 14, set_pixels_rect_h::<_, u8, 0>(V565::<4, 3>::new(), 12));
//@ props=C01,C08 tier=thorough inst="VModel<Rgb666,3,2>/u8" bounds="area<=6; unwind 8" timeout=900 mem=6
h!(c01_set_pixels_rect_v666_3x2, 8, set_pixels_rect_h::<_, u8, 0>(V666::<3, 2>::new(), 6));

//@ props=C01,C02,C08,C20 inst="VModel<Rgb565,15,15>/u8" bounds="loop-free (closed-form repeat model): every embedded-graphics-valid rectangle in i32^2 x u32^2, all cfgs, every cell" timeout=400 mem=4
h!(c01_fill_solid_v15x15, 3, fill_solid_h::<_, u8, 0>(V565::<15, 15>::new()));
//@ props=C01,C02,C20 inst="VModel<Rgb565,240,320>/u8" bounds="same" timeout=900 mem=4
h!(c01_fill_solid_v240x320, 3, fill_solid_h::<_, u8, 0>(V565::<240, 320>::new()));
//@ props=C01,C02,C08,C20 tier=thorough inst="VModel<Rgb666,320,480>/u8/Parallel8Bit" bounds="same" timeout=1800 mem=6
h!(c01_fill_solid_v320x480, 5, fill_solid_h::<_, u8, 1>(V666::<320, 480>::new()));
//@ props=C01,C02,C08,C20 tier=thorough required=no inst="VModel<Rgb565,65535,65535>/u8" bounds="same (16x16-bit multiplier equivalence; may hit the cap)" timeout=2400 mem=8
h!(c01_fill_solid_vmax, 3, fill_solid_h::<_, u8, 0>(V565::<65535, 65535>::new()));
//@ props=C01,C02,C08,C20 inst="VModel<Rgb565,240,320>/u8" bounds="loop-free: clear() on all cfgs, every cell inside and outside the window" timeout=400 mem=4
h!(c01_clear_v240x320, 3, clear_h::<_, u8, 0>(V565::<240, 320>::new()));
//@ props=C01,C02,C08,C20 tier=thorough required=no inst="VModel<Rgb565,65535,65535>/u8" bounds="same" timeout=2400 mem=8
h!(c01_clear_vmax, 3, clear_h::<_, u8, 0>(V565::<65535, 65535>::new()));
//@ props=C01,C02,C08,C20 tier=thorough inst="VModel<Rgb565,320,240>/u16/Parallel16Bit" bounds="same" timeout=900 mem=4
h!(c01_clear_v16_320x240, 3, clear_h::<_, u16, 2>(V565::<320, 240>::new()));

//@ props=C04,C01,C02,C08,C20 cfg=main,ptr16,nobatch inst="VModel<Rgb565,3,2>/u8" bounds="rectangle position in [-2,3]^2, size <= 3x3, stream length 0..=10 (beyond the area), all cfgs on the 3x2 framebuffer; unwind 12" timeout=900 mem=6
h!(c04_fillc_q, 12, fill_contiguous_h::<_, u8, 0>(V565::<3, 2>::new(), -2, 3, 3, 10));
//@ props=C04,C01,C02,C08,C20 tier=thorough cfg=main,ptr16 inst="VModel<Rgb565,3,2>/u8" bounds="position in [-2,3]^2, size <= 4x4, stream 0..=17; unwind 19" timeout=3000 mem=10
h!(c04_fillc_t, 19, fill_contiguous_h::<_, u8, 0>(V565::<3, 2>::new(), -2, 3, 4, 17));
//@ props=C04,C02,C08 inst="VModel<Rgb565,3,2>/u8, 64-bit helper variants" bounds="rectangle at any i32 position, width <= 200000, height <= 3, any stream length in u32 (O(1)-skipping colour source); all cfgs on the 3x2 framebuffer; unwind 9" timeout=1800 mem=10
h!(c04_fillc_wide, 9, fill_contiguous_wide_h::<_, u8, 0>(V565::<3, 2>::new()));
// ---- set_pixel on the built-in models (their framebuffer sizes and colour types)
//@ props=C01,C05 pick=c01builtin:2 inst="ILI9341Rgb565/u8/Serial4Line" bounds="as c01_set_pixel_*; unwind 20 for the init sequence" timeout=600 mem=4
h!(c01_sp_ili9341_565, 20, set_pixel_h::<_, u8, 0>(mipidsi::models::ILI9341Rgb565));
//@ props=C01,C05 pick=c01builtin:2 inst="ILI9341Rgb666/u8/Parallel8Bit" bounds="same" timeout=600 mem=4
h!(c01_sp_ili9341_666, 20, set_pixel_h::<_, u8, 1>(mipidsi::models::ILI9341Rgb666));
//@ props=C01,C05 pick=c01builtin:2 inst="ILI9342CRgb565/u16/Parallel16Bit" bounds="same" timeout=600 mem=4
h!(c01_sp_ili9342c_565, 20, set_pixel_h::<_, u16, 2>(mipidsi::models::ILI9342CRgb565));
//@ props=C01,C05 pick=c01builtin:2 inst="ILI9342CRgb666/u8/Serial4Line" bounds="same" timeout=600 mem=4
h!(c01_sp_ili9342c_666, 20, set_pixel_h::<_, u8, 0>(mipidsi::models::ILI9342CRgb666));
//@ props=C01,C05 pick=c01builtin:2 inst="ILI9486Rgb565/u16/Parallel16Bit" bounds="same" timeout=600 mem=4
h!(c01_sp_ili9486_565, 20, set_pixel_h::<_, u16, 2>(mipidsi::models::ILI9486Rgb565));
//@ props=C01,C05 pick=c01builtin:2 inst="ILI9486Rgb666/u8/Serial4Line" bounds="same" timeout=600 mem=4
h!(c01_sp_ili9486_666, 20, set_pixel_h::<_, u8, 0>(mipidsi::models::ILI9486Rgb666));
//@ props=C01,C05 pick=c01builtin:2 inst="ILI9488Rgb565/u8/Parallel8Bit" bounds="same" timeout=600 mem=4
h!(c01_sp_ili9488_565, 20, set_pixel_h::<_, u8, 1>(mipidsi::models::ILI9488Rgb565));
//@ props=C01,C05 pick=c01builtin:2 inst="ILI9488Rgb666/u8/Serial4Line" bounds="same" timeout=600 mem=4
h!(c01_sp_ili9488_666, 20, set_pixel_h::<_, u8, 0>(mipidsi::models::ILI9488Rgb666));
//@ props=C01,C05 pick=c01builtin:2 inst="ST7735s/u8/Serial4Line" bounds="same" timeout=600 mem=4
h!(c01_sp_st7735s, 20, set_pixel_h::<_, u8, 0>(mipidsi::models::ST7735s));
//@ props=C01,C05 pick=c01builtin:2 inst="ST7789/u8/Serial4Line" bounds="same" timeout=600 mem=4
h!(c01_sp_st7789, 20, set_pixel_h::<_, u8, 0>(mipidsi::models::ST7789));
//@ props=C01,C05 pick=c01builtin:2 inst="ST7796/u16/Parallel16Bit" bounds="same" timeout=600 mem=4
h!(c01_sp_st7796, 20, set_pixel_h::<_, u16, 2>(mipidsi::models::ST7796));
//@ props=C01,C05 pick=c01builtin:2 inst="RM67162/u8/Serial4Line" bounds="same" timeout=600 mem=4
h!(c01_sp_rm67162, 20, set_pixel_h::<_, u8, 0>(mipidsi::models::RM67162));
//@ props=C01,C05 pick=c01builtin:2 inst="GC9107/u8/Parallel8Bit" bounds="same" timeout=600 mem=4
h!(c01_sp_gc9107, 20, set_pixel_h::<_, u8, 1>(mipidsi::models::GC9107));
//@ props=C01,C05 pick=c01builtin:2 inst="GC9A01/u8/Serial4Line" bounds="same" timeout=900 mem=4
h!(c01_sp_gc9a01, 20, set_pixel_h::<_, u8, 0>(mipidsi::models::GC9A01));
