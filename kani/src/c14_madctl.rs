//! C14: the address-mode byte is the exact MIPI encoding; setters touch only their own bits.
use crate::env::*;
use crate::oracle::*;
use crate::sym::*;
use mipidsi::dcs::{DcsCommand, InterfaceExt, SetAddressMode};
use mipidsi::options::ModelOptions;

fn byte(m: SetAddressMode) -> u8 {
    let mut b = [0xA5u8; 4];
    let n = m.fill_params_buf(&mut b);
    assert!(n == 1, "[C14][C18] one parameter byte");
    assert!(b[1] == 0xA5 && b[2] == 0xA5 && b[3] == 0xA5, "[C18] bytes beyond the parameter untouched");
    assert!(m.instruction() == 0x36, "[C14][C18] opcode 0x36");
    b[0]
}

#[kani::proof]
//@ props=C14 inst="SetAddressMode::{new, from, default().with_* in 6 orders}" bounds="loop-free: all 2 x 8 x 4 inputs" timeout=300 mem=3
fn c14_encoding() {
    let (co, o, ro) = (any_color_order(), any_orientation(), any_refresh());
    let e = expected_madctl(co, o, ro);
    assert!(e & 0b11 == 0, "[ORACLE] low bits zero");
    assert!(byte(SetAddressMode::new(co, o, ro)) == e, "[C14] new() is the MIPI encoding");
    let mut opts = ModelOptions::with_all((1, 1), (0, 0));
    opts.color_order = co;
    opts.orientation = o;
    opts.refresh_order = ro;
    assert!(byte(SetAddressMode::from(&opts)) == e, "[C14] From<&ModelOptions> is the MIPI encoding");
    let d = SetAddressMode::default();
    assert!(byte(d) == 0, "[C14] default is 0");
    assert!(byte(d.with_color_order(co).with_orientation(o).with_refresh_order(ro)) == e, "[C14] order c,o,r");
    assert!(byte(d.with_color_order(co).with_refresh_order(ro).with_orientation(o)) == e, "[C14] order c,r,o");
    assert!(byte(d.with_orientation(o).with_color_order(co).with_refresh_order(ro)) == e, "[C14] order o,c,r");
    assert!(byte(d.with_orientation(o).with_refresh_order(ro).with_color_order(co)) == e, "[C14] order o,r,c");
    assert!(byte(d.with_refresh_order(ro).with_color_order(co).with_orientation(o)) == e, "[C14] order r,c,o");
    assert!(byte(d.with_refresh_order(ro).with_orientation(o).with_color_order(co)) == e, "[C14] order r,o,c");
    kani::cover!(e == 0b1111_1100, "cover: all bits set");
}

#[kani::proof]
//@ props=C14 inst="one setter from any reachable value" bounds="loop-free: all reachable states (2x8x4) x all new inputs; one inductive step covers setter sequences of any length" timeout=300 mem=3
fn c14_step() {
    let (co, o, ro) = (any_color_order(), any_orientation(), any_refresh());
    let s = SetAddressMode::new(co, o, ro);
    let (co2, o2, ro2) = (any_color_order(), any_orientation(), any_refresh());
    assert!(byte(s.with_color_order(co2)) == expected_madctl(co2, o, ro), "[C14] with_color_order changes only bit 3");
    assert!(byte(s.with_orientation(o2)) == expected_madctl(co, o2, ro), "[C14] with_orientation changes only bits 7..5");
    assert!(byte(s.with_refresh_order(ro2)) == expected_madctl(co, o, ro2), "[C14] with_refresh_order changes only bits 4 and 2");
    assert!(s.with_orientation(o2).with_color_order(co2) == s.with_color_order(co2).with_orientation(o2), "[C14] setters commute (o,c)");
    assert!(s.with_orientation(o2).with_refresh_order(ro2) == s.with_refresh_order(ro2).with_orientation(o2), "[C14] setters commute (o,r)");
    assert!(s.with_color_order(co2).with_refresh_order(ro2) == s.with_refresh_order(ro2).with_color_order(co2), "[C14] setters commute (c,r)");
    kani::cover!(byte(s) == 0b1111_1100 && byte(s.with_orientation(o2)) == 0b0001_1100, "cover: clearing all orientation bits");
}

#[kani::proof]
//@ props=C14,C18 inst="write_command(SetAddressMode) on the controller model" bounds="loop-free: all inputs" timeout=300 mem=3
fn c14_on_bus() {
    let (co, o, ro) = (any_color_order(), any_orientation(), any_refresh());
    let mut world = World::new(NEVER);
    let mut ctl = Ctl::<u8, 0, false>::new(&mut world, 4, 4, (0, 0));
    ctl.write_command(SetAddressMode::new(co, o, ro)).unwrap();
    assert!(ctl.c.madctl_count == 1 && ctl.c.madctl == expected_madctl(co, o, ro), "[C14] byte on the bus");
    kani::cover!(ctl.c.madctl == 0xA8, "cover: Deg270 Bgr");
}
