//! C07 (+ C12 at transport level): parallel transport.
use crate::busenv::*;
use crate::env::{E, E_BUS, E_DC, E_WR};
use mipidsi::interface::{Interface, OutputBus, ParallelError, ParallelInterface};

pub struct Src<W: Copy, const N: usize, const P: usize> {
    px: [[W; N]; P],
    n: usize,
    k: usize,
}
impl<W: Copy, const N: usize, const P: usize> Iterator for Src<W, N, P> {
    type Item = [W; N];
    fn next(&mut self) -> Option<[W; N]> {
        let k = self.k;
        self.k += 1;
        if k < P && k < self.n {
            Some(self.px[k])
        } else {
            None
        }
    }
}

/// command + repeated pixel on the 8-bit bus, N words per pixel (strobe-only and general path)
fn par8_repeat_h<const N: usize>(cmax: u32) {
    let mut pw = ParWorld::new(kani::any(), kani::any(), kani::any());
    let w: *mut ParWorld = &mut pw;
    let mut di = ParallelInterface::new(bus8(w), ParDc(w), ParWr(w));
    let cmd: u8 = kani::any();
    let args: [u8; 2] = kani::any();
    let na: usize = kani::any();
    kani::assume(na <= 2);
    di.send_command(cmd, &args[..na]).unwrap();
    let p: [u8; N] = kani::any();
    let count: u32 = kani::any();
    kani::assume(count <= cmax);
    di.send_repeated_pixel(p, count).unwrap();
    let nrep = N as u32 * count;
    let total = 1 + na as u32 + nrep;
    assert!(pw.edges == total, "[C07][C08] one write strobe per word: instruction, parameters, pixel words (pixel data is a whole number of pixels, no more than asked for)");
    assert!(pw.dc_low_edges == 1 && pw.dc, "[C07] DC low only at the instruction's edge");
    if pw.probe_hit {
        let j = pw.probe_idx;
        let got = (pw.probe_word & 0xff) as u8;
        if j == 0 {
            assert!(got == cmd && !pw.probe_dc, "[C07] instruction latched with DC low");
        } else if j <= na as u32 {
            assert!(got == args[j as usize - 1] && pw.probe_dc, "[C07] parameter latched in order");
        } else {
            let mut r = (j - 1 - na as u32) as usize;
            let mut t = 0;
            while t < 3 {
                if r >= N {
                    r -= N;
                }
                t += 1;
            }
            assert!(got == p[r] && pw.probe_dc, "[C07][C05] repeated pixel word latched (also on the strobe-only path): a solid fill puts the same words on the bus as a pixel stream");
        }
    }
    let mut same = true;
    let mut i = 1;
    while i < N {
        if p[i] != p[0] {
            same = false;
        }
        i += 1;
    }
    kani::cover!(count == cmax && same && pw.probe_hit && pw.probe_idx == na as u32 + nrep, "cover: strobe-only repeat, last word");
    kani::cover!(count == cmax && !same, "cover: general path");
    kani::cover!(count == 0, "cover: zero count");
}

/// command + pixel stream on the 8-bit bus
fn par8_stream_h<const N: usize>() {
    let mut pw = ParWorld::new(kani::any(), kani::any(), kani::any());
    let w: *mut ParWorld = &mut pw;
    let mut di = ParallelInterface::new(bus8(w), ParDc(w), ParWr(w));
    let cmd: u8 = kani::any();
    let args: [u8; 3] = kani::any();
    let na: usize = kani::any();
    kani::assume(na <= 3);
    di.send_command(cmd, &args[..na]).unwrap();
    let q: [[u8; N]; 2] = kani::any();
    let nq: usize = kani::any();
    kani::assume(nq <= 2);
    di.send_pixels(Src::<u8, N, 2> { px: q, n: nq, k: 0 }).unwrap();
    let total = 1 + na as u32 + (N * nq) as u32;
    assert!(pw.edges == total, "[C07][C08] one write strobe per word: instruction, parameters, pixel words (pixel data is a whole number of pixels, no more than asked for)");
    assert!(pw.dc_low_edges == 1 && pw.dc, "[C07] DC low only at the instruction's edge");
    if pw.probe_hit {
        let j = pw.probe_idx;
        let got = (pw.probe_word & 0xff) as u8;
        if j == 0 {
            assert!(got == cmd && !pw.probe_dc, "[C07] instruction latched with DC low");
        } else if j <= na as u32 {
            assert!(got == args[j as usize - 1] && pw.probe_dc, "[C07] parameter latched in order");
        } else {
            let i = (j - 1 - na as u32) as usize;
            let (a, b) = if i >= N { (1, i - N) } else { (0, i) };
            assert!(got == q[a][b] && pw.probe_dc, "[C07] streamed pixel word latched in order");
        }
    }
    kani::cover!(nq == 2 && q[0][N - 1] == q[1][0] && pw.probe_hit && pw.probe_idx == total - 1, "cover: equal consecutive words, last word");
    kani::cover!(na == 3 && args[0] == cmd, "cover: parameter equal to the instruction");
}

fn par16_traffic_h() {
    let mut pw = ParWorld::new(kani::any(), kani::any(), kani::any());
    let w: *mut ParWorld = &mut pw;
    let mut di = ParallelInterface::new(bus16(w), ParDc(w), ParWr(w));
    let cmd: u8 = kani::any();
    let args: [u8; 3] = kani::any();
    let na: usize = kani::any();
    kani::assume(na <= 3);
    di.send_command(cmd, &args[..na]).unwrap();
    let p: [u16; 1] = kani::any();
    let count: u32 = kani::any();
    kani::assume(count <= 3);
    di.send_repeated_pixel(p, count).unwrap();
    let q: [[u16; 1]; 2] = kani::any();
    let nq: usize = kani::any();
    kani::assume(nq <= 2);
    di.send_pixels(Src::<u16, 1, 2> { px: q, n: nq, k: 0 }).unwrap();
    let total = 1 + na as u32 + count + nq as u32;
    assert!(pw.edges == total, "[C07] one write strobe per word");
    assert!(pw.dc_low_edges == 1 && pw.dc, "[C07] DC low only at the instruction's edge");
    if pw.probe_hit {
        let j = pw.probe_idx;
        let got = pw.probe_word;
        if j == 0 {
            assert!(got == cmd as u16 && !pw.probe_dc, "[C07] instruction latched with DC low (upper byte zero)");
        } else if j <= na as u32 {
            assert!(got == args[j as usize - 1] as u16 && pw.probe_dc, "[C07] parameter latched in order");
        } else if j < 1 + na as u32 + count {
            assert!(got == p[0] && pw.probe_dc, "[C07] repeated pixel word latched");
        } else {
            assert!(got == q[(j - 1 - na as u32 - count) as usize][0] && pw.probe_dc, "[C07] streamed pixel word latched in order");
        }
    }
    kani::cover!(count == 3 && pw.probe_hit && pw.probe_idx == na as u32 + 3, "cover: last repeated word");
    kani::cover!(nq == 2 && q[0][0] == q[1][0], "cover: equal consecutive words");
}

/// data pins always show the last value written, after any pattern of pin failures
fn bus_faults_h<B: OutputBus<Error = E>>(mut bus: B, w: *mut ParWorld, mask: u16)
where
    B::Word: Into<u16> + Copy,
    B::Word: kani::Arbitrary,
{
    let vs: [B::Word; 3] = kani::any();
    let mut any_ok = false;
    for i in 0..3 {
        let r = bus.set_value(vs[i]);
        let pw = unsafe { &*w };
        if r.is_ok() {
            any_ok = true;
            assert!(pw.levels & mask == vs[i].into() & mask, "[C07][C12][C13][C17] after Ok the data pins show the value written, whatever pin failures or pin levels came before");
        } else {
            assert!(pw.failed, "[C07][C12] Err only when a pin failed");
        }
    }
    kani::cover!(unsafe { (*w).failed } && any_ok, "cover: a failure and a later success");
}

/// transport-level fault reporting
fn par8_fault_h() {
    let mut pw = ParWorld::new(kani::any(), true, 0);
    pw.fail_at = kani::any();
    let w: *mut ParWorld = &mut pw;
    let mut di = ParallelInterface::new(bus8(w), ParDc(w), ParWr(w));
    let args: [u8; 2] = kani::any();
    let na: usize = kani::any();
    kani::assume(na <= 2);
    let which: u8 = kani::any();
    let p: [u8; 2] = kani::any();
    let r = match which {
        0 => di.send_command(kani::any(), &args[..na]),
        1 => {
            let n: usize = kani::any();
            kani::assume(n <= 2);
            di.send_pixels(Src::<u8, 2, 2> { px: [p; 2], n, k: 0 })
        }
        _ => {
            let c: u32 = kani::any();
            kani::assume(c >= 1 && c <= 2);
            di.send_repeated_pixel(p, c)
        }
    };
    assert!(pw.ops_after_fail == 0, "[C12] no pin operation after the failing one");
    match r {
        Ok(()) => assert!(!pw.failed, "[C12] a failed operation must be reported"),
        Err(ParallelError::Bus(e)) => assert!(pw.failed && pw.failed_kind == E_BUS && e == E(E_BUS), "[C12] data pin failure reported as ParallelError::Bus"),
        Err(ParallelError::Dc(e)) => assert!(pw.failed && pw.failed_kind == E_DC && e == E(E_DC), "[C12] DC failure reported as ParallelError::Dc"),
        Err(ParallelError::Wr(e)) => assert!(pw.failed && pw.failed_kind == E_WR && e == E(E_WR), "[C12] WR failure reported as ParallelError::Wr"),
    }
    kani::cover!(pw.failed && pw.failed_kind == E_BUS, "cover: data pin fault");
    kani::cover!(pw.failed && pw.failed_kind == E_WR && which == 2, "cover: WR fault in a repeat");
}

/// `count * N` in the strobe-only path: looks only at checks reached before the loop
fn par_repeat_overflow_h() {
    // only the checks that precede the strobe loop are examined (unwinding cut at 5, no
    // unwinding assertions): `count * N` must not overflow for any repeat count
    let mut pw = ParWorld::new(0, true, 0);
    // a native replay must terminate: the 1000th pin operation fails, which ends the call
    // (under CBMC the strobe loop is cut long before that)
    pw.fail_at = 1000;
    let w: *mut ParWorld = &mut pw;
    let mut di = ParallelInterface::new(bus8(w), ParDc(w), ParWr(w));
    let count: u32 = kani::any();
    let b: u8 = kani::any();
    let _ = di.send_repeated_pixel([b, b, b], count);
}

macro_rules! h {
    ($name:ident, $unw:expr, $body:expr) => {
        #[kani::proof]
        #[kani::unwind($unw)]
        fn $name() {
            $body
        }
    };
}
//@ props=C07,C05,C08 inst="ParallelInterface<Generic8BitBus>: command + send_repeated_pixel, 2 words per pixel" bounds="0..=2 parameters, repeat count 0..=3 (symbolic pixel: strobe-only and general path); symbolic initial pin levels; symbolic strobe index" timeout=900 mem=8
h!(c07_par8_repeat_n2, 8, par8_repeat_h::<2>(3));
//@ props=C07,C05 inst="ParallelInterface<Generic8BitBus>: command + send_repeated_pixel, 3 words per pixel" bounds="0..=2 parameters, repeat count 0..=1 (strobe-only and general path)" timeout=1200 mem=8
h!(c07_par8_repeat_n3, 6, par8_repeat_h::<3>(1));
//@ props=C07 tier=thorough inst="ParallelInterface<Generic8BitBus>: command + send_repeated_pixel, 3 words per pixel" bounds="0..=2 parameters, repeat count 0..=2" timeout=2400 mem=10
h!(c07_par8_repeat_n3_2, 8, par8_repeat_h::<3>(2));
//@ props=C07 inst="ParallelInterface<Generic8BitBus>: command + send_pixels, 2 words per pixel" bounds="0..=3 parameters, stream of 0..=2 pixels" timeout=900 mem=8
h!(c07_par8_stream_n2, 6, par8_stream_h::<2>());
//@ props=C07 inst="ParallelInterface<Generic8BitBus>: command + send_pixels, 3 words per pixel" bounds="0..=3 parameters, stream of 0..=2 pixels" timeout=1200 mem=8
h!(c07_par8_stream_n3, 6, par8_stream_h::<3>());
//@ props=C07 tier=thorough required=no inst="ParallelInterface<Generic8BitBus>: command + send_repeated_pixel, 3 words per pixel" bounds="0..=2 parameters, repeat count 0..=4" timeout=5400 mem=24
h!(c07_par8_repeat_n3_t, 14, par8_repeat_h::<3>(4));
//@ props=C07 inst="ParallelInterface<Generic16BitBus>, 1 word per pixel" bounds="same" timeout=1200 mem=8
h!(c07_par16, 6, par16_traffic_h());
//@ props=C07,C12,C13,C17 inst="Generic8BitBus::set_value x 3" bounds="3 symbolic values from a symbolic initial pin state under an arbitrary 64-bit fault mask over pin operations (two calls cover every (state, transition) pair)" timeout=400 mem=4
h!(c07_bus8_faults, 4, {
    let mut pw = ParWorld::new(kani::any(), true, 0);
    pw.fail_mask = kani::any();
    let w: *mut ParWorld = &mut pw;
    bus_faults_h(bus8(w), w, 0xff)
});
//@ props=C07,C12 inst="Generic16BitBus::set_value x 3" bounds="same" timeout=600 mem=4
h!(c07_bus16_faults, 4, {
    let mut pw = ParWorld::new(kani::any(), true, 0);
    pw.fail_mask = kani::any();
    let w: *mut ParWorld = &mut pw;
    bus_faults_h(bus16(w), w, 0xffff)
});
//@ props=C12 inst="ParallelInterface<Generic8BitBus>: send_command / send_pixels / send_repeated_pixel" bounds="symbolic index of the failing pin operation; args <= 2, <= 2 pixels" timeout=900 mem=6
h!(c12_par8_fault, 6, par8_fault_h());
//@ props=C07,C02 inst="ParallelInterface::send_repeated_pixel, strobe-only path, 3 words per pixel" bounds="repeat count over all of u32; only the checks that precede the strobe loop (unwinding cut at 5, unwinding assertions off)" timeout=600 mem=6 extra="--no-unwinding-checks"
h!(c07_repeat_count_any, 5, par_repeat_overflow_h());
