//! C10: after set_orientation the display behaves as if built with that orientation.
use crate::c01_placement::*;
use crate::env::*;
use crate::oracle::*;
use crate::sym::*;
use embedded_graphics_core::{pixelcolor::Rgb565, prelude::*, primitives::Rectangle};
use mipidsi::options::Orientation;

fn reorient<const FW: u16, const FH: u16, const FAST: bool>(
    world: *mut World,
    probe: (u16, u16),
) -> Option<(D<VModel<Rgb565, FW, FH>, u8, 0, FAST>, Cfg)> {
    let mut cfg = any_cfg();
    let (co, ro) = (any_color_order(), any_refresh());
    let mut d = build_opts::<_, u8, 0, FAST>(VModel::<Rgb565, FW, FH>::new(), world, probe, &cfg, co, ro)?;
    let o0 = cfg.o;
    let o1 = any_orientation();
    let o2 = any_orientation();
    let two: bool = kani::any();
    if two {
        assert!(d.set_orientation(o1).is_ok(), "[C10] no error without a bus fault");
    }
    assert!(d.set_orientation(o2).is_ok(), "[C10] no error without a bus fault");
    cfg.o = o2;
    assert!(d.orientation() == o2, "[C10] orientation() reports the last orientation set");
    let (lw, lh) = logical_size(o2, cfg.w, cfg.h);
    let sz = d.size();
    assert!(sz.width == lw as u32 && sz.height == lh as u32, "[C10] size() follows the new orientation");
    let bb = d.bounding_box();
    assert!(bb.top_left == Point::zero() && bb.size == sz, "[C10] bounding_box() follows the new orientation");
    {
        let c = &mut unsafe { d.dcs() }.c;
        crate::indep! { assert!(c.madctl == expected_madctl(co, o2, ro), "[C10][C14][C15] controller address mode = encoding of the last orientation, colour/refresh bits preserved"); }
        crate::indep! { assert!(c.madctl_count == 2 + two as u32, "[C10] one address-mode command per set_orientation"); }
        crate::indep! { assert!(c.pixels == 0, "[C10] set_orientation writes no pixels"); }
        c.arm();
    }
    kani::cover!(two && o1 != o2 && o2 != o0 && o1 != o0, "cover: two distinct changes");
    Some((d, cfg))
}

fn c10_set_pixel_h<const FW: u16, const FH: u16>() {
    let probe = any_probe::<VModel<Rgb565, FW, FH>>();
    let mut world = World::new(NEVER);
    let Some((mut d, cfg)) = reorient::<FW, FH, false>(&mut world, probe) else {
        return;
    };
    let sz = d.size();
    let (x, y): (u16, u16) = (kani::any(), kani::any());
    kani::assume((x as u32) < sz.width && (y as u32) < sz.height);
    let col = <Rgb565 as Wire>::any();
    d.set_pixel(x, y, col).unwrap();
    let (ctl, _, _) = d.release();
    let c = &ctl.c;
    assert_framing(c);
    if cfg.exp(x, y) == probe {
        assert!(c.probe_writes == 1 && c.probe_val == col.wire(), "[C10][C15][C01] pixel placed as for a display built with the new orientation");
    } else {
        assert!(c.probe_writes == 0, "[C10] no other cell changes");
    }
    kani::cover!(cfg.exp(x, y) == probe && cfg.w != cfg.h, "cover: hit on a non-square panel");
}

fn c10_fill_solid_h<const FW: u16, const FH: u16>() {
    let probe = any_probe::<VModel<Rgb565, FW, FH>>();
    let mut world = World::new(NEVER);
    let Some((mut d, cfg)) = reorient::<FW, FH, true>(&mut world, probe) else {
        return;
    };
    let (rx, ry, rw, rh): (i32, i32, u32, u32) = (kani::any(), kani::any(), kani::any(), kani::any());
    kani::assume(rw <= 70000 && rh <= 70000 && rx >= -70000 && rx <= 70000 && ry >= -70000 && ry <= 70000);
    let rect = Rectangle::new(Point::new(rx, ry), Size::new(rw, rh));
    let col = <Rgb565 as Wire>::any();
    d.fill_solid(&rect, col).unwrap();
    let (ctl, _, _) = d.release();
    let c = &ctl.c;
    assert_framing(c);
    crate::indep! { assert!(!c.f_overrun, "[C08] more pixel data than the window holds"); }
    let inside = |x: u16, y: u16| {
        (x as i32) >= rx && (x as i64) < rx as i64 + rw as i64 && (y as i32) >= ry && (y as i64) < ry as i64 + rh as i64
    };
    match cfg.inv(probe) {
        Some((x, y)) if inside(x, y) => {
            assert!(c.probe_writes == 1 && c.probe_val == col.wire(), "[C10] fill clipped and placed per the new orientation");
            kani::cover!(cfg.w != cfg.h, "cover: non-square hit");
        }
        _ => assert!(c.probe_writes == 0, "[C10][C02] nothing outside the clipped rectangle changes"),
    }
}

macro_rules! h {
    ($name:ident, $unw:expr, $body:expr) => {
        #[kani::proof]
        #[kani::unwind($unw)]
        fn $name() {
            $body
        }
    };
}
//@ props=C10,C08,C15,C01 inst="VModel<Rgb565,3,2>" bounds="loop-free: all cfgs x colour order x refresh order, 1 or 2 symbolic set_orientation calls, then a symbolic in-bounds set_pixel" timeout=600 mem=4
h!(c10_set_pixel_v3x2, 3, c10_set_pixel_h::<3, 2>());
//@ props=C10,C08 inst="VModel<Rgb565,240,320>" bounds="same" timeout=600 mem=4
h!(c10_set_pixel_v240x320, 3, c10_set_pixel_h::<240, 320>());
//@ props=C10,C08 tier=thorough inst="VModel<Rgb565,65535,65535>" bounds="same" timeout=900 mem=4
h!(c10_set_pixel_vmax, 3, c10_set_pixel_h::<65535, 65535>());
//@ props=C10,C08,C02 inst="VModel<Rgb565,240,320>" bounds="loop-free: as above, then fill_solid of a symbolic rectangle within +-70000" timeout=900 mem=4
h!(c10_fill_solid_v240x320, 3, c10_fill_solid_h::<240, 320>());
//@ props=C10,C08,C02 tier=thorough inst="VModel<Rgb565,3,2>" bounds="same" timeout=900 mem=4
h!(c10_fill_solid_v3x2, 3, c10_fill_solid_h::<3, 2>());
const _O: Option<Orientation> = None;

/// An external model may program (and return) an address mode that differs from the plain
/// options, e.g. a BGR-wired panel; `set_orientation` must preserve those bits.
pub struct BgrWired;
impl mipidsi::models::Model for BgrWired {
    type ColorFormat = Rgb565;
    const FRAMEBUFFER_SIZE: (u16, u16) = (240, 320);
    fn init<DELAY: embedded_hal::delay::DelayNs, DI: mipidsi::interface::Interface>(
        &mut self,
        di: &mut DI,
        delay: &mut DELAY,
        options: &mipidsi::options::ModelOptions,
    ) -> Result<mipidsi::dcs::SetAddressMode, mipidsi::models::ModelInitError<DI::Error>> {
        use mipidsi::dcs::InterfaceExt;
        let madctl = mipidsi::dcs::SetAddressMode::from(options).with_color_order(mipidsi::options::ColorOrder::Bgr);
        di.write_command(mipidsi::dcs::ExitSleepMode)?;
        delay.delay_us(120_000);
        di.write_command(madctl)?;
        Ok(madctl)
    }
}

#[kani::proof]
#[kani::unwind(3)]
//@ props=C10 inst="external model returning its own address mode (BGR-wired), then set_orientation" bounds="loop-free: all initial and new orientations, all refresh orders" timeout=400 mem=4
fn c10_model_madctl_preserved() {
    let mut world = World::new(NEVER);
    let ctl = Ctl::<u8, 0, false>::new(&mut world, 240, 320, (0, 0));
    let ro = any_refresh();
    let Ok(mut d) = mipidsi::Builder::new(BgrWired, ctl).orientation(any_orientation()).refresh_order(ro).reset_pin(Pin).init(&mut NoDelay) else {
        assert!(false, "[C10] init failed");
        return;
    };
    let o = any_orientation();
    d.set_orientation(o).unwrap();
    let (ctl, _, _) = d.release();
    assert!(ctl.c.madctl == expected_madctl(mipidsi::options::ColorOrder::Bgr, o, ro), "[C10] colour order and refresh order bits of the address mode programmed by the model are preserved across set_orientation");
    kani::cover!(o.mirrored, "cover");
}
