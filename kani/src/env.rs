//! Environment models: shared world (operation counter, fault schedule, virtual clock),
//! pin / delay stubs and the MIPI-DCS controller model `Ctl` at the `Interface` boundary.
//! Everything in this file is part of the trusted base of every claim that uses it.

use core::marker::PhantomData;
use embedded_hal::delay::DelayNs;
use embedded_hal::digital::{ErrorType as DErr, OutputPin};
use mipidsi::interface::{Interface, InterfaceKind};

/// Error value carried by every stub: the code names the stub that failed.
#[derive(Debug, Clone, Copy, PartialEq, Eq)]
pub struct E(pub u8);
impl embedded_hal::digital::Error for E {
    fn kind(&self) -> embedded_hal::digital::ErrorKind {
        embedded_hal::digital::ErrorKind::Other
    }
}
impl embedded_hal::spi::Error for E {
    fn kind(&self) -> embedded_hal::spi::ErrorKind {
        embedded_hal::spi::ErrorKind::Other
    }
}

pub const E_DC: u8 = 1;
pub const E_SPI: u8 = 2;
pub const E_RST: u8 = 3;
pub const E_WR: u8 = 4;
pub const E_BUS: u8 = 5;
pub const E_IFACE: u8 = 7;

pub const NEVER: u32 = u32::MAX;

/// Shared by all stubs of one harness through a raw pointer (a `RefCell` drags
/// `core::fmt` into the model and was 3x more expensive when probed).
pub struct World {
    /// number of low-level operations performed so far (pin sets, SPI transactions,
    /// `Interface` calls of a recording interface)
    pub ops: u32,
    /// index of the operation that fails (NEVER = none)
    pub fail_at: u32,
    pub failed: bool,
    pub ops_after_fail: u32,
    /// virtual clock: the delay source waits exactly as long as asked
    pub time_ns: u64,
    pub delay_calls: u32,
    // reset pin observations
    pub rst_calls: u32,
    pub rst_is_low: bool,
    pub rst_low_seen: bool,
    pub rst_high_seen: bool,
    pub rst_low_t: u64,
    pub rst_high_t: u64,
    pub rst_final_high: bool,
    /// bus traffic seen while the reset pin was low
    pub bus_while_rst_low: u32,
    /// bus traffic seen before the first reset-pin operation
    pub bus_before_rst: u32,
    pub bus_ops: u32,
}

impl World {
    pub fn new(fail_at: u32) -> Self {
        World {
            ops: 0,
            fail_at,
            failed: false,
            ops_after_fail: 0,
            time_ns: 0,
            delay_calls: 0,
            rst_calls: 0,
            rst_is_low: false,
            rst_low_seen: false,
            rst_high_seen: false,
            rst_low_t: 0,
            rst_high_t: 0,
            rst_final_high: false,
            bus_while_rst_low: 0,
            bus_before_rst: 0,
            bus_ops: 0,
        }
    }
    /// One fallible low-level operation.
    #[inline(always)]
    pub fn op(&mut self) -> bool {
        if self.failed {
            self.ops_after_fail += 1;
        }
        let k = self.ops;
        self.ops += 1;
        if k == self.fail_at {
            self.failed = true;
            false
        } else {
            true
        }
    }
    #[inline(always)]
    pub fn bus_op(&mut self) {
        self.bus_ops += 1;
        if self.rst_is_low {
            self.bus_while_rst_low += 1;
        }
        if self.rst_calls == 0 {
            self.bus_before_rst += 1;
        }
    }
}

/// Clock stub: only `delay_ns` is overridden, so `delay_us`/`delay_ms` go through the
/// real default methods of embedded-hal.
pub struct Clock(pub *mut World);
impl DelayNs for Clock {
    fn delay_ns(&mut self, ns: u32) {
        let w = unsafe { &mut *self.0 };
        w.delay_calls += 1;
        w.time_ns += ns as u64;
    }
}

/// Reset pin stub.
pub struct Rst(pub *mut World);
impl DErr for Rst {
    type Error = E;
}
impl OutputPin for Rst {
    fn set_low(&mut self) -> Result<(), E> {
        let w = unsafe { &mut *self.0 };
        w.rst_calls += 1;
        if !w.op() {
            return Err(E(E_RST));
        }
        w.rst_is_low = true;
        w.rst_low_seen = true;
        w.rst_low_t = w.time_ns;
        w.rst_final_high = false;
        Ok(())
    }
    fn set_high(&mut self) -> Result<(), E> {
        let w = unsafe { &mut *self.0 };
        w.rst_calls += 1;
        if !w.op() {
            return Err(E(E_RST));
        }
        w.rst_is_low = false;
        w.rst_high_seen = true;
        w.rst_high_t = w.time_ns;
        w.rst_final_high = true;
        Ok(())
    }
}

/// Inert pin for harnesses that do not look at the reset line.
pub struct Pin;
impl DErr for Pin {
    type Error = core::convert::Infallible;
}
impl OutputPin for Pin {
    fn set_low(&mut self) -> Result<(), Self::Error> {
        Ok(())
    }
    fn set_high(&mut self) -> Result<(), Self::Error> {
        Ok(())
    }
}
pub struct NoDelay;
impl DelayNs for NoDelay {
    fn delay_ns(&mut self, _ns: u32) {}
}

pub trait WordLike: Copy {
    const BITS: u32;
    fn v(self) -> u32;
}
impl WordLike for u8 {
    const BITS: u32 = 8;
    fn v(self) -> u32 {
        self as u32
    }
}
impl WordLike for u16 {
    const BITS: u32 = 16;
    fn v(self) -> u32 {
        self as u32
    }
}

/// State of the controller model.  One symbolic probe cell stands for every cell.
pub struct Core {
    pub fw: u16,
    pub fh: u16,
    pub madctl: u8,
    pub madctl_count: u32,
    pub sc: u16,
    pub ec: u16,
    pub sp: u16,
    pub ep: u16,
    pub col: u16,
    pub row: u16,
    pub ramwr: bool,
    /// framing monitor: 0 idle, 1 after CASET, 2 after RASET, 3 after RAMWR, 4 pixel data seen
    pub phase: u8,
    /// true while a drawing call is being monitored (C08)
    pub monitor: bool,
    pub f_nowr: bool,
    pub f_plen: bool,
    pub f_sgt: bool,
    pub f_beyond: bool,
    pub f_overrun: bool,
    pub f_order: bool,
    pub f_foreign: bool,
    pub probe: (u16, u16),
    pub probe_val: u32,
    pub probe_writes: u32,
    pub pixels: u32,
    pub burst_px: u32,
    pub ramwr_count: u32,
    pub caset_count: u32,
    pub raset_count: u32,
    pub pixel_calls: u32,
    pub cmds: u32,
    // init / power state
    pub sleeping: bool,
    pub slp_seen: bool,
    pub slp_t: u64,
    pub slp_gap_bad: bool,
    pub slpout_count: u32,
    pub slpin_count: u32,
    pub disp_on: bool,
    pub colmod: u8,
    pub colmod_seen: bool,
    pub inv: u8,
    pub swreset: u32,
    pub first_cmd: u8,
    pub cmds_before_swreset: u32,
    pub last_cmd: u8,
    // scroll / tearing
    pub vscrdef: (u16, u16, u16),
    pub vscrdef_count: u32,
    pub vscrdef_bad_len: bool,
    pub vscsad: u16,
    pub vscsad_count: u32,
    pub vscsad_bad_len: bool,
    pub te_on: bool,
    pub te_mode: u8,
    pub te_count: u32,
}

impl Core {
    pub fn new(fw: u16, fh: u16, probe: (u16, u16)) -> Self {
        Core {
            fw,
            fh,
            madctl: 0,
            madctl_count: 0,
            sc: 0,
            ec: 0,
            sp: 0,
            ep: 0,
            col: 0,
            row: 0,
            ramwr: false,
            phase: 0,
            monitor: false,
            f_nowr: false,
            f_plen: false,
            f_sgt: false,
            f_beyond: false,
            f_overrun: false,
            f_order: false,
            f_foreign: false,
            probe,
            probe_val: 0,
            probe_writes: 0,
            pixels: 0,
            burst_px: 0,
            ramwr_count: 0,
            caset_count: 0,
            raset_count: 0,
            pixel_calls: 0,
            cmds: 0,
            sleeping: true,
            slp_seen: false,
            slp_t: 0,
            slp_gap_bad: false,
            slpout_count: 0,
            slpin_count: 0,
            disp_on: false,
            colmod: 0,
            colmod_seen: false,
            inv: 0,
            swreset: 0,
            first_cmd: 0,
            cmds_before_swreset: 0,
            last_cmd: 0,
            vscrdef: (0, 0, 0),
            vscrdef_count: 0,
            vscrdef_bad_len: false,
            vscsad: 0,
            vscsad_count: 0,
            vscsad_bad_len: false,
            te_on: false,
            te_mode: 0,
            te_count: 0,
        }
    }

    /// any framing violation (C08)
    pub fn bad(&self) -> bool {
        self.f_nowr
            || self.f_plen
            || self.f_sgt
            || self.f_beyond
            || self.f_overrun
            || self.f_order
            || self.f_foreign
    }

    /// start monitoring a drawing call / a sequence of drawing calls
    pub fn arm(&mut self) {
        self.monitor = true;
        self.phase = 0;
        self.ramwr = false;
        // drawing counters start at the first monitored call (an init sequence may reuse
        // the address opcodes on a vendor page, e.g. RM67162)
        self.pixels = 0;
        self.burst_px = 0;
        self.ramwr_count = 0;
        self.caset_count = 0;
        self.raset_count = 0;
        self.pixel_calls = 0;
    }

    #[inline(always)]
    fn mv(&self) -> bool {
        self.madctl & 0x20 != 0
    }
    #[inline(always)]
    fn mx(&self) -> bool {
        self.madctl & 0x40 != 0
    }
    #[inline(always)]
    fn my(&self) -> bool {
        self.madctl & 0x80 != 0
    }
    /// limits of (column, page) addresses under the current address mode
    #[inline(always)]
    fn limits(&self) -> (u16, u16) {
        if self.mv() {
            (self.fh, self.fw)
        } else {
            (self.fw, self.fh)
        }
    }

    pub fn command(&mut self, c: u8, args: &[u8], now: u64) {
        self.ramwr = false;
        if self.cmds == 0 {
            self.first_cmd = c;
        }
        if c != 0x01 && self.swreset == 0 {
            self.cmds_before_swreset += 1;
        }
        self.cmds += 1;
        self.last_cmd = c;
        let n = args.len();
        match c {
            0x01 => self.swreset += 1,
            0x10 | 0x11 => {
                if self.slp_seen && now - self.slp_t < 120_000_000 {
                    self.slp_gap_bad = true;
                }
                self.slp_seen = true;
                self.slp_t = now;
                if c == 0x10 {
                    self.sleeping = true;
                    self.slpin_count += 1;
                } else {
                    self.sleeping = false;
                    self.slpout_count += 1;
                }
            }
            0x20 => self.inv = 1,
            0x21 => self.inv = 2,
            0x28 => self.disp_on = false,
            0x29 => {
                // vendor pages reuse 0x29 with a parameter (RM67162); only the
                // parameter-less form is DISPON
                if n == 0 {
                    self.disp_on = true;
                }
            }
            0x2A => {
                self.caset_count += 1;
                if n != 4 {
                    if self.monitor {
                        self.f_plen = true;
                    }
                } else {
                    self.sc = u16::from_be_bytes([args[0], args[1]]);
                    self.ec = u16::from_be_bytes([args[2], args[3]]);
                    if self.monitor {
                        if self.sc > self.ec {
                            self.f_sgt = true;
                        }
                        if self.ec >= self.limits().0 {
                            self.f_beyond = true;
                        }
                    }
                }
            }
            0x2B => {
                self.raset_count += 1;
                if n != 4 {
                    if self.monitor {
                        self.f_plen = true;
                    }
                } else {
                    self.sp = u16::from_be_bytes([args[0], args[1]]);
                    self.ep = u16::from_be_bytes([args[2], args[3]]);
                    if self.monitor {
                        if self.sp > self.ep {
                            self.f_sgt = true;
                        }
                        if self.ep >= self.limits().1 {
                            self.f_beyond = true;
                        }
                    }
                }
            }
            0x2C => {
                self.ramwr_count += 1;
                if n != 0 && self.monitor {
                    self.f_plen = true;
                }
                self.ramwr = true;
                self.col = self.sc;
                self.row = self.sp;
                self.burst_px = 0;
            }
            0x3C => {
                self.ramwr_count += 1;
                self.ramwr = true;
            }
            0x33 => {
                self.vscrdef_count += 1;
                if n == 6 {
                    self.vscrdef = (
                        u16::from_be_bytes([args[0], args[1]]),
                        u16::from_be_bytes([args[2], args[3]]),
                        u16::from_be_bytes([args[4], args[5]]),
                    );
                } else {
                    self.vscrdef_bad_len = true;
                }
            }
            0x34 => {
                self.te_count += 1;
                self.te_on = false;
            }
            0x35 => {
                self.te_count += 1;
                self.te_on = true;
                if n == 1 {
                    self.te_mode = args[0];
                } else {
                    self.te_mode = 0xff;
                }
            }
            0x36 => {
                self.madctl_count += 1;
                if n == 1 {
                    self.madctl = args[0];
                }
            }
            0x37 => {
                self.vscsad_count += 1;
                if n == 2 {
                    self.vscsad = u16::from_be_bytes([args[0], args[1]]);
                } else {
                    self.vscsad_bad_len = true;
                }
            }
            0x3A => {
                if n == 1 {
                    self.colmod = args[0];
                    self.colmod_seen = true;
                }
            }
            _ => {}
        }
        if self.monitor {
            match c {
                0x2A => {
                    if self.phase != 0 && self.phase != 4 {
                        self.f_order = true;
                    }
                    self.phase = 1;
                }
                0x2B => {
                    if self.phase != 1 {
                        self.f_order = true;
                    }
                    self.phase = 2;
                }
                0x2C => {
                    if self.phase != 2 {
                        self.f_order = true;
                    }
                    self.phase = 3;
                }
                _ => self.f_foreign = true,
            }
        }
    }

    /// one `send_pixels` / `send_repeated_pixel` call begins
    pub fn pixel_call(&mut self) {
        self.pixel_calls += 1;
        if self.monitor {
            if self.phase != 3 {
                self.f_order = true;
            }
            self.phase = 4;
        }
    }

    pub fn window_area(&self) -> u64 {
        let ww = (self.ec.wrapping_sub(self.sc)) as u64 + 1;
        let wh = (self.ep.wrapping_sub(self.sp)) as u64 + 1;
        ww * wh
    }

    #[inline(always)]
    fn hit(&mut self, c: u16, r: u16, v: u32) {
        let (a, b) = if self.mv() { (r, c) } else { (c, r) };
        // a indexes physical x, b physical y
        if a >= self.fw || b >= self.fh {
            self.f_beyond = true;
        } else {
            let px = if self.mx() { self.fw - 1 - a } else { a };
            let py = if self.my() { self.fh - 1 - b } else { b };
            if (px, py) == self.probe {
                self.probe_val = v;
                self.probe_writes += 1;
            }
        }
    }

    pub fn write_px(&mut self, v: u32) {
        if !self.ramwr {
            self.f_nowr = true;
            return;
        }
        if self.burst_px as u64 >= self.window_area() {
            // the write pointer wrapped: more data than the window holds
            self.f_overrun = true;
        }
        let (c, r) = (self.col, self.row);
        self.hit(c, r, v);
        self.pixels += 1;
        self.burst_px += 1;
        if self.col == self.ec {
            self.col = self.sc;
            if self.row == self.ep {
                self.row = self.sp;
            } else {
                self.row = self.row.wrapping_add(1);
            }
        } else {
            self.col = self.col.wrapping_add(1);
        }
    }

    /// closed form of `count` writes of the same value right after RAMWR (no loop)
    pub fn repeat_px(&mut self, v: u32, count: u32) {
        if count == 0 {
            return;
        }
        if !self.ramwr {
            self.f_nowr = true;
            return;
        }
        if self.burst_px != 0 {
            // closed form only valid from the window origin
            self.f_order = true;
            return;
        }
        if self.sc > self.ec || self.sp > self.ep {
            self.f_sgt = true;
            return;
        }
        let ww = (self.ec - self.sc) as u32 + 1;
        let wh = (self.ep - self.sp) as u32 + 1;
        if count as u64 > ww as u64 * wh as u64 {
            self.f_overrun = true;
        }
        let (lc, lr) = self.limits();
        if self.ec >= lc || self.ep >= lr {
            self.f_beyond = true;
            return;
        }
        if self.probe.0 < self.fw && self.probe.1 < self.fh {
            let a = if self.mx() { self.fw - 1 - self.probe.0 } else { self.probe.0 };
            let b = if self.my() { self.fh - 1 - self.probe.1 } else { self.probe.1 };
            let (c, r) = if self.mv() { (b, a) } else { (a, b) };
            if c >= self.sc && c <= self.ec && r >= self.sp && r <= self.ep {
                let idx = (r - self.sp) as u64 * ww as u64 + (c - self.sc) as u64;
                if idx < count as u64 {
                    self.probe_val = v;
                    self.probe_writes += 1;
                }
            }
        }
        self.pixels = self.pixels.wrapping_add(count);
        self.burst_px = count;
    }
}

#[inline(always)]
pub fn fold_words<W: WordLike, const N: usize>(p: [W; N]) -> u32 {
    let mut v: u32 = 0;
    let mut i = 0;
    while i < N {
        v = (v << (W::BITS % 32)) | p[i].v();
        i += 1;
    }
    v
}

/// MIPI-DCS controller model at the `Interface` boundary, with call-level fault injection.
/// `K`: 0 = Serial4Line, 1 = Parallel8Bit, 2 = Parallel16Bit.
/// `FAST`: `send_repeated_pixel` uses the O(1) closed form instead of a loop.
pub struct Ctl<W, const K: u8, const FAST: bool> {
    pub w: *mut World,
    pub c: Core,
    _p: PhantomData<W>,
}

impl<W, const K: u8, const FAST: bool> Ctl<W, K, FAST> {
    pub fn new(w: *mut World, fw: u16, fh: u16, probe: (u16, u16)) -> Self {
        Ctl {
            w,
            c: Core::new(fw, fh, probe),
            _p: PhantomData,
        }
    }
    #[inline(always)]
    fn op(&mut self) -> Result<(), E> {
        let w = unsafe { &mut *self.w };
        w.bus_op();
        if w.op() {
            Ok(())
        } else {
            Err(E(E_IFACE))
        }
    }
    #[inline(always)]
    fn now(&self) -> u64 {
        unsafe { (*self.w).time_ns }
    }
}

pub const fn kind_of(k: u8) -> InterfaceKind {
    match k {
        0 => InterfaceKind::Serial4Line,
        1 => InterfaceKind::Parallel8Bit,
        _ => InterfaceKind::Parallel16Bit,
    }
}

impl<W: WordLike, const K: u8, const FAST: bool> Interface for Ctl<W, K, FAST> {
    type Word = W;
    type Error = E;
    const KIND: InterfaceKind = kind_of(K);

    fn send_command(&mut self, command: u8, args: &[u8]) -> Result<(), E> {
        self.op()?;
        let now = self.now();
        self.c.command(command, args, now);
        Ok(())
    }

    fn send_pixels<const N: usize>(
        &mut self,
        pixels: impl IntoIterator<Item = [W; N]>,
    ) -> Result<(), E> {
        self.op()?;
        self.c.pixel_call();
        for p in pixels {
            self.c.write_px(fold_words(p));
        }
        Ok(())
    }

    fn send_repeated_pixel<const N: usize>(&mut self, p: [W; N], count: u32) -> Result<(), E> {
        self.op()?;
        self.c.pixel_call();
        let v = fold_words(p);
        if FAST {
            self.c.repeat_px(v, count);
        } else {
            let mut i = 0;
            while i < count {
                self.c.write_px(v);
                i += 1;
            }
        }
        Ok(())
    }
}
