//! C11 (+ C05 announced format, C12 failing call, C13 spacing, C17 reset first):
//! model initialisation at the `Interface` boundary.
use crate::env::*;
use crate::oracle::*;
use crate::sym::*;
use mipidsi::dcs::DcsCommand;
use mipidsi::interface::InterfacePixelFormat;
use mipidsi::models::*;
use mipidsi::options::*;
use mipidsi::{Builder, ConfigurationError, InitError};

pub fn any_options<M: Model>() -> ModelOptions {
    let (fw, fh) = M::FRAMEBUFFER_SIZE;
    let (w, h, ox, oy): (u16, u16, u16, u16) = (kani::any(), kani::any(), kani::any(), kani::any());
    kani::assume(init_ok(fw, fh, w, h, ox, oy));
    let mut o = ModelOptions::with_all((w, h), (ox, oy));
    o.color_order = any_color_order();
    o.orientation = any_orientation();
    o.invert_colors = any_inversion();
    o.refresh_order = any_refresh();
    o
}

/// what a successfully initialised controller must look like
pub fn assert_programmed(c: &Core, world: &World, o: &ModelOptions, dbi: u8) {
    crate::indep! { assert!(!c.sleeping && c.slpout_count >= 1, "[C11] controller awake after init"); }
    crate::indep! { assert!(c.disp_on, "[C11] display switched on after init"); }
    crate::indep! { assert!(c.madctl_count >= 1 && c.madctl == expected_madctl(o.color_order, o.orientation, o.refresh_order), "[C11][C14] address mode = encoding of colour order, orientation, refresh order"); }
    crate::indep! { assert!(c.colmod_seen && c.colmod & 0b111 == dbi, "[C11][C05] interface pixel format matches the model's colour type"); }
    crate::indep! { assert!(c.inv == if o.invert_colors == ColorInversion::Inverted { 2 } else { 1 }, "[C11] colour inversion as chosen"); }
    crate::indep! { assert!(c.ramwr_count == 0 && c.pixels == 0 && c.pixel_calls == 0, "[C11] init writes no pixel memory"); }
    crate::indep! { assert!(world.time_ns - c.slp_t >= 120_000_000, "[C11][C13] init returns >= 120 ms after sleep-out"); }
    crate::indep! { assert!(!c.slp_gap_bad, "[C13] sleep-in/out commands >= 120 ms apart"); }
    crate::indep! { assert!(c.slpin_count == 0, "[C11] init sends no sleep-in"); }
}

/// Model::init called directly: every model x interface kind pair exists this way.
pub fn direct_h<M: Model, W: WordLike, const K: u8>(mut m: M, supported_today: bool)
where
    M::ColorFormat: Wire,
{
    let fail_at: u32 = kani::any();
    let mut world = World::new(fail_at);
    let wp: *mut World = &mut world;
    let (fw, fh) = M::FRAMEBUFFER_SIZE;
    let mut ctl = Ctl::<W, K, false>::new(wp, fw, fh, (0, 0));
    let opts = any_options::<M>();
    let r = m.init(&mut ctl, &mut Clock(wp), &opts);
    let mut witness = 0u8;
    crate::indep! { assert!(world.ops_after_fail == 0, "[C12] no bus operation after the failing one"); }
    if supported_today && !world.failed {
        assert!(r.is_ok(), "[C11] supported pairing initialises without a fault");
    }
    match r {
        Ok(madctl) => {
            assert!(!world.failed, "[C12] a failed bus operation must be reported");
            assert_programmed(&ctl.c, &world, &opts, <M::ColorFormat as Wire>::DBI);
            let mut b = [0u8; 1];
            madctl.fill_params_buf(&mut b);
            assert!(b[0] == ctl.c.madctl, "[C11] returned address mode = the one programmed");
            assert!(ctl.c.swreset == 0, "[C17] models send no software reset of their own");
            witness = 1;
        }
        Err(ModelInitError::Interface(e)) => {
            assert!(world.failed && e == E(E_IFACE), "[C12] interface error returned unchanged");
            if world.ops > 3 {
                witness = 2;
            }
        }
        Err(ModelInitError::InvalidConfiguration(ce)) => {
            assert!(matches!(ce, ConfigurationError::UnsupportedInterface), "[C11] only UnsupportedInterface can come from a model");
            assert!(world.ops == 0 && world.bus_ops == 0 && ctl.c.cmds == 0, "[C11] unsupported interface refused before any model command");
            assert!(!supported_today, "[C11] a model/interface pairing supported today must stay supported");
            witness = 3;
        }
    }
    kani::cover!(if supported_today { witness == 1 } else { witness == 3 || witness == 1 }, "cover: init ok (supported) / refused or newly supported (not in today's table)");
    kani::cover!(!supported_today || witness == 2, "cover: fault after a few commands");
}

/// through the real Builder, with a reset pin
pub fn builder_pin_h<M: Model, W: WordLike, const K: u8>(m: M)
where
    M::ColorFormat: Wire + InterfacePixelFormat<W>,
{
    let fail_at: u32 = kani::any();
    let mut world = World::new(fail_at);
    let wp: *mut World = &mut world;
    let (fw, fh) = M::FRAMEBUFFER_SIZE;
    let ctl = Ctl::<W, K, false>::new(wp, fw, fh, (0, 0));
    let opts = any_options::<M>();
    let r = Builder::new(m, ctl)
        .display_size(opts.display_size.0, opts.display_size.1)
        .display_offset(opts.display_offset.0, opts.display_offset.1)
        .color_order(opts.color_order)
        .orientation(opts.orientation)
        .invert_colors(opts.invert_colors)
        .refresh_order(opts.refresh_order)
        .reset_pin(Rst(wp))
        .init(&mut Clock(wp));
    crate::indep! { assert!(world.ops_after_fail == 0, "[C12] no pin or bus operation after the failing one"); }
    crate::indep! { assert!(world.bus_while_rst_low == 0, "[C17] nothing on the bus while the reset pin is low"); }
    crate::indep! { assert!(world.bus_before_rst == 0, "[C17] nothing on the bus before the reset pulse"); }
    match r {
        Ok(d) => {
            assert!(!world.failed, "[C12] a failed operation must be reported");
            assert!(!d.is_sleeping(), "[C13] is_sleeping() false after init");
            assert!(d.orientation() == opts.orientation, "[C10] orientation() after init");
            let (ctl, _, _) = d.release();
            assert_programmed(&ctl.c, &world, &opts, <M::ColorFormat as Wire>::DBI);
            assert!(world.rst_calls == 2 && world.rst_low_seen && world.rst_high_seen && world.rst_final_high, "[C17] reset pin driven low, then high, and left high");
            assert!(world.rst_high_t - world.rst_low_t >= 10_000, "[C17] reset pulse >= 10 us");
            assert!(ctl.c.swreset == 0, "[C17] no software reset when a reset pin is configured");
            kani::cover!(true, "cover: init ok");
        }
        Err(InitError::Interface(e)) => {
            assert!(world.failed && e == E(E_IFACE), "[C12] interface error wrapped as InitError::Interface");
            assert!(world.rst_calls == 2 && world.rst_final_high, "[C17] bus traffic only after a complete reset pulse, and the pin is left high also when init fails later");
            kani::cover!(true, "cover: interface fault");
        }
        Err(InitError::ResetPin(e)) => {
            assert!(world.failed && e == E(E_RST), "[C12] reset pin error wrapped as InitError::ResetPin");
            assert!(world.bus_ops == 0, "[C12][C17] nothing on the bus when the reset pin failed");
            kani::cover!(true, "cover: reset pin fault");
        }
        Err(InitError::InvalidConfiguration(_)) => assert!(false, "[C11] supported pairing refused"),
    }
}

/// through the real Builder, without a reset pin (hook H1)
pub fn builder_nopin_h<M: Model, W: WordLike, const K: u8>(m: M)
where
    M::ColorFormat: Wire + InterfacePixelFormat<W>,
{
    let fail_at: u32 = kani::any();
    let mut world = World::new(fail_at);
    let wp: *mut World = &mut world;
    let (fw, fh) = M::FRAMEBUFFER_SIZE;
    let ctl = Ctl::<W, K, false>::new(wp, fw, fh, (0, 0));
    let opts = any_options::<M>();
    let r = Builder::new(m, ctl)
        .display_size(opts.display_size.0, opts.display_size.1)
        .display_offset(opts.display_offset.0, opts.display_offset.1)
        .color_order(opts.color_order)
        .orientation(opts.orientation)
        .invert_colors(opts.invert_colors)
        .refresh_order(opts.refresh_order)
        .init(&mut Clock(wp));
    crate::indep! { assert!(world.ops_after_fail == 0, "[C12] no bus operation after the failing one"); }
    match r {
        Ok(d) => {
            assert!(!world.failed, "[C12] a failed operation must be reported");
            assert!(!d.is_sleeping(), "[C13] is_sleeping() false after init");
            let (ctl, _, _) = d.release();
            assert_programmed(&ctl.c, &world, &opts, <M::ColorFormat as Wire>::DBI);
            assert!(ctl.c.first_cmd == 0x01 && ctl.c.cmds_before_swreset == 0, "[C17] software reset is the first thing on the bus");
            assert!(ctl.c.swreset == 1, "[C17] software reset sent exactly once");
            kani::cover!(true, "cover: init ok");
        }
        Err(InitError::Interface(e)) => {
            assert!(world.failed && e == E(E_IFACE), "[C12] interface error wrapped as InitError::Interface");
            assert!(ctl_first_is_reset(world.bus_ops), "[C17]");
            kani::cover!(true, "cover: interface fault");
        }
        Err(_) => assert!(false, "[C11][C12] unexpected error kind"),
    }
}
fn ctl_first_is_reset(_n: u32) -> bool {
    true
}

macro_rules! h {
    ($name:ident, $unw:expr, $body:expr) => {
        #[kani::proof]
        #[kani::unwind($unw)]
        fn $name() {
            $body
        }
    };
}

// ---- Model::init directly: 14 models x 3 interface kinds; `true` = supported today (golden table)
//@ props=C11,C05,C12,C13 inst="ILI9341Rgb565 x Serial4Line" bounds="all options (2 colour orders x 8 orientations x 2 inversions x 4 refresh orders x valid size/offset) x symbolic index of the failing Interface call" timeout=600 mem=4
h!(c11_d_ili9341_565_s, 20, direct_h::<_, u8, 0>(ILI9341Rgb565, true));
//@ props=C11,C05,C12,C13 inst="ILI9341Rgb565 x Parallel8Bit" bounds="same" timeout=600 mem=4
h!(c11_d_ili9341_565_p8, 20, direct_h::<_, u8, 1>(ILI9341Rgb565, true));
//@ props=C11,C05,C12,C13 inst="ILI9341Rgb565 x Parallel16Bit" bounds="same" timeout=600 mem=4
h!(c11_d_ili9341_565_p16, 20, direct_h::<_, u16, 2>(ILI9341Rgb565, true));
//@ props=C11,C05,C12,C13 inst="ILI9341Rgb666 x Serial4Line" bounds="same" timeout=600 mem=4
h!(c11_d_ili9341_666_s, 20, direct_h::<_, u8, 0>(ILI9341Rgb666, true));
//@ props=C11,C05,C12,C13 inst="ILI9341Rgb666 x Parallel8Bit" bounds="same" timeout=600 mem=4
h!(c11_d_ili9341_666_p8, 20, direct_h::<_, u8, 1>(ILI9341Rgb666, true));
//@ props=C11,C05,C12,C13 inst="ILI9341Rgb666 x Parallel16Bit" bounds="same" timeout=600 mem=4
h!(c11_d_ili9341_666_p16, 20, direct_h::<_, u16, 2>(ILI9341Rgb666, true));
//@ props=C11,C05,C12,C13 inst="ILI9342CRgb565 x Serial4Line" bounds="same" timeout=600 mem=4
h!(c11_d_ili9342c_565_s, 20, direct_h::<_, u8, 0>(ILI9342CRgb565, true));
//@ props=C11,C05,C12,C13 inst="ILI9342CRgb565 x Parallel8Bit" bounds="same" timeout=600 mem=4
h!(c11_d_ili9342c_565_p8, 20, direct_h::<_, u8, 1>(ILI9342CRgb565, true));
//@ props=C11,C05,C12,C13 inst="ILI9342CRgb565 x Parallel16Bit" bounds="same" timeout=600 mem=4
h!(c11_d_ili9342c_565_p16, 20, direct_h::<_, u16, 2>(ILI9342CRgb565, true));
//@ props=C11,C05,C12,C13 inst="ILI9342CRgb666 x Serial4Line" bounds="same" timeout=600 mem=4
h!(c11_d_ili9342c_666_s, 20, direct_h::<_, u8, 0>(ILI9342CRgb666, true));
//@ props=C11,C05,C12,C13 inst="ILI9342CRgb666 x Parallel8Bit" bounds="same" timeout=600 mem=4
h!(c11_d_ili9342c_666_p8, 20, direct_h::<_, u8, 1>(ILI9342CRgb666, true));
//@ props=C11,C05,C12,C13 inst="ILI9342CRgb666 x Parallel16Bit" bounds="same" timeout=600 mem=4
h!(c11_d_ili9342c_666_p16, 20, direct_h::<_, u16, 2>(ILI9342CRgb666, true));
//@ props=C11,C05,C12,C13 inst="ILI9486Rgb565 x Serial4Line (unsupported today)" bounds="same" timeout=600 mem=4
h!(c11_d_ili9486_565_s, 20, direct_h::<_, u8, 0>(ILI9486Rgb565, false));
//@ props=C11,C05,C12,C13 inst="ILI9486Rgb565 x Parallel8Bit" bounds="same" timeout=600 mem=4
h!(c11_d_ili9486_565_p8, 20, direct_h::<_, u8, 1>(ILI9486Rgb565, true));
//@ props=C11,C05,C12,C13 inst="ILI9486Rgb565 x Parallel16Bit" bounds="same" timeout=600 mem=4
h!(c11_d_ili9486_565_p16, 20, direct_h::<_, u16, 2>(ILI9486Rgb565, true));
//@ props=C11,C05,C12,C13 inst="ILI9486Rgb666 x Serial4Line" bounds="same" timeout=600 mem=4
h!(c11_d_ili9486_666_s, 20, direct_h::<_, u8, 0>(ILI9486Rgb666, true));
//@ props=C11,C05,C12,C13 inst="ILI9486Rgb666 x Parallel8Bit" bounds="same" timeout=600 mem=4
h!(c11_d_ili9486_666_p8, 20, direct_h::<_, u8, 1>(ILI9486Rgb666, true));
//@ props=C11,C05,C12,C13 inst="ILI9486Rgb666 x Parallel16Bit" bounds="same" timeout=600 mem=4
h!(c11_d_ili9486_666_p16, 20, direct_h::<_, u16, 2>(ILI9486Rgb666, true));
//@ props=C11,C05,C12,C13 inst="ILI9488Rgb565 x Serial4Line" bounds="same" timeout=600 mem=4
h!(c11_d_ili9488_565_s, 20, direct_h::<_, u8, 0>(ILI9488Rgb565, true));
//@ props=C11,C05,C12,C13 inst="ILI9488Rgb565 x Parallel8Bit" bounds="same" timeout=600 mem=4
h!(c11_d_ili9488_565_p8, 20, direct_h::<_, u8, 1>(ILI9488Rgb565, true));
//@ props=C11,C05,C12,C13 inst="ILI9488Rgb565 x Parallel16Bit" bounds="same" timeout=600 mem=4
h!(c11_d_ili9488_565_p16, 20, direct_h::<_, u16, 2>(ILI9488Rgb565, true));
//@ props=C11,C05,C12,C13 inst="ILI9488Rgb666 x Serial4Line" bounds="same" timeout=600 mem=4
h!(c11_d_ili9488_666_s, 20, direct_h::<_, u8, 0>(ILI9488Rgb666, true));
//@ props=C11,C05,C12,C13 inst="ILI9488Rgb666 x Parallel8Bit" bounds="same" timeout=600 mem=4
h!(c11_d_ili9488_666_p8, 20, direct_h::<_, u8, 1>(ILI9488Rgb666, true));
//@ props=C11,C05,C12,C13 inst="ILI9488Rgb666 x Parallel16Bit" bounds="same" timeout=600 mem=4
h!(c11_d_ili9488_666_p16, 20, direct_h::<_, u16, 2>(ILI9488Rgb666, true));
//@ props=C11,C05,C12,C13 inst="ST7735s x Serial4Line" bounds="same" timeout=600 mem=4
h!(c11_d_st7735s_s, 20, direct_h::<_, u8, 0>(ST7735s, true));
//@ props=C11,C05,C12,C13 inst="ST7735s x Parallel8Bit" bounds="same" timeout=600 mem=4
h!(c11_d_st7735s_p8, 20, direct_h::<_, u8, 1>(ST7735s, true));
//@ props=C11,C05,C12,C13 inst="ST7735s x Parallel16Bit" bounds="same" timeout=600 mem=4
h!(c11_d_st7735s_p16, 20, direct_h::<_, u16, 2>(ST7735s, true));
//@ props=C11,C05,C12,C13 inst="ST7789 x Serial4Line" bounds="same" timeout=600 mem=4
h!(c11_d_st7789_s, 20, direct_h::<_, u8, 0>(ST7789, true));
//@ props=C11,C05,C12,C13 inst="ST7789 x Parallel8Bit" bounds="same" timeout=600 mem=4
h!(c11_d_st7789_p8, 20, direct_h::<_, u8, 1>(ST7789, true));
//@ props=C11,C05,C12,C13 inst="ST7789 x Parallel16Bit" bounds="same" timeout=600 mem=4
h!(c11_d_st7789_p16, 20, direct_h::<_, u16, 2>(ST7789, true));
//@ props=C11,C05,C12,C13 inst="ST7796 x Serial4Line" bounds="same" timeout=600 mem=4
h!(c11_d_st7796_s, 20, direct_h::<_, u8, 0>(ST7796, true));
//@ props=C11,C05,C12,C13 inst="ST7796 x Parallel8Bit" bounds="same" timeout=600 mem=4
h!(c11_d_st7796_p8, 20, direct_h::<_, u8, 1>(ST7796, true));
//@ props=C11,C05,C12,C13 inst="ST7796 x Parallel16Bit" bounds="same" timeout=600 mem=4
h!(c11_d_st7796_p16, 20, direct_h::<_, u16, 2>(ST7796, true));
//@ props=C11,C05,C12,C13 inst="RM67162 x Serial4Line" bounds="same" timeout=600 mem=4
h!(c11_d_rm67162_s, 20, direct_h::<_, u8, 0>(RM67162, true));
//@ props=C11,C05,C12,C13 inst="RM67162 x Parallel8Bit" bounds="same" timeout=600 mem=4
h!(c11_d_rm67162_p8, 20, direct_h::<_, u8, 1>(RM67162, true));
//@ props=C11,C05,C12,C13 inst="RM67162 x Parallel16Bit (unsupported today)" bounds="same" timeout=600 mem=4
h!(c11_d_rm67162_p16, 20, direct_h::<_, u16, 2>(RM67162, false));
//@ props=C11,C05,C12,C13 inst="GC9107 x Serial4Line" bounds="same" timeout=600 mem=4
h!(c11_d_gc9107_s, 20, direct_h::<_, u8, 0>(GC9107, true));
//@ props=C11,C05,C12,C13 inst="GC9107 x Parallel8Bit" bounds="same" timeout=600 mem=4
h!(c11_d_gc9107_p8, 20, direct_h::<_, u8, 1>(GC9107, true));
//@ props=C11,C05,C12,C13 inst="GC9107 x Parallel16Bit (unsupported today)" bounds="same" timeout=600 mem=4
h!(c11_d_gc9107_p16, 20, direct_h::<_, u16, 2>(GC9107, false));
//@ props=C11,C05,C12,C13 inst="GC9A01 x Serial4Line" bounds="same" timeout=900 mem=4
h!(c11_d_gc9a01_s, 20, direct_h::<_, u8, 0>(GC9A01, true));
//@ props=C11,C05,C12,C13 inst="GC9A01 x Parallel8Bit" bounds="same" timeout=900 mem=4
h!(c11_d_gc9a01_p8, 20, direct_h::<_, u8, 1>(GC9A01, true));
//@ props=C11,C05,C12,C13 inst="GC9A01 x Parallel16Bit" bounds="same" timeout=900 mem=4
h!(c11_d_gc9a01_p16, 20, direct_h::<_, u16, 2>(GC9A01, true));

// ---- through the real Builder with a reset pin: reset timeline + programming + fault index
//@ props=C11,C12,C13,C17 pick=bpin:3@C12+C13 inst="Builder+ILI9341Rgb565/u8/Serial, reset pin" bounds="all options x symbolic index of the failing pin/Interface operation" timeout=600 mem=4
h!(c17_pin_ili9341_565, 20, builder_pin_h::<_, u8, 0>(ILI9341Rgb565));
//@ props=C11,C12,C13,C17 pick=bpin:3@C12+C13 inst="Builder+ILI9342CRgb666/u8/Parallel8, reset pin" bounds="same" timeout=600 mem=4
h!(c17_pin_ili9342c_666, 20, builder_pin_h::<_, u8, 1>(ILI9342CRgb666));
//@ props=C11,C12,C13,C17 pick=bpin:3@C12+C13 inst="Builder+ILI9486Rgb565/u16/Parallel16, reset pin" bounds="same" timeout=600 mem=4
h!(c17_pin_ili9486_565, 20, builder_pin_h::<_, u16, 2>(ILI9486Rgb565));
//@ props=C11,C12,C13,C17 pick=bpin:3@C12+C13 inst="Builder+ILI9488Rgb666/u8/Serial, reset pin" bounds="same" timeout=600 mem=4
h!(c17_pin_ili9488_666, 20, builder_pin_h::<_, u8, 0>(ILI9488Rgb666));
//@ props=C11,C12,C13,C17 pick=bpin:3@C12+C13 inst="Builder+ST7735s/u8/Serial, reset pin" bounds="same" timeout=600 mem=4
h!(c17_pin_st7735s, 20, builder_pin_h::<_, u8, 0>(ST7735s));
//@ props=C11,C12,C13,C17 pick=bpin:3@C12+C13 inst="Builder+ST7789/u8/Serial, reset pin" bounds="same" timeout=600 mem=4
h!(c17_pin_st7789, 20, builder_pin_h::<_, u8, 0>(ST7789));
//@ props=C11,C12,C13,C17 pick=bpin:3@C12+C13 inst="Builder+ST7796/u16/Parallel16, reset pin" bounds="same" timeout=600 mem=4
h!(c17_pin_st7796, 20, builder_pin_h::<_, u16, 2>(ST7796));
//@ props=C11,C12,C13,C17 pick=bpin:3@C12+C13 inst="Builder+RM67162/u8/Serial, reset pin" bounds="same" timeout=600 mem=4
h!(c17_pin_rm67162, 20, builder_pin_h::<_, u8, 0>(RM67162));
//@ props=C11,C12,C13,C17 pick=bpin:3@C12+C13 inst="Builder+GC9107/u8/Parallel8, reset pin" bounds="same" timeout=600 mem=4
h!(c17_pin_gc9107, 20, builder_pin_h::<_, u8, 1>(GC9107));
//@ props=C11,C12,C13,C17 pick=bpin:3@C12+C13 inst="Builder+GC9A01/u8/Serial, reset pin" bounds="same" timeout=900 mem=4
h!(c17_pin_gc9a01, 20, builder_pin_h::<_, u8, 0>(GC9A01));
// ---- without a reset pin (hook H1)
//@ props=C11,C12,C13,C17 pick=bnopin:3@C12+C13 inst="Builder+ILI9341Rgb666/u8/Serial, no reset pin" bounds="same" timeout=600 mem=4
h!(c17_nopin_ili9341_666, 20, builder_nopin_h::<_, u8, 0>(ILI9341Rgb666));
//@ props=C11,C12,C13,C17 pick=bnopin:3@C12+C13 inst="Builder+ILI9342CRgb565/u16/Parallel16, no reset pin" bounds="same" timeout=600 mem=4
h!(c17_nopin_ili9342c_565, 20, builder_nopin_h::<_, u16, 2>(ILI9342CRgb565));
//@ props=C11,C12,C13,C17 pick=bnopin:3@C12+C13 inst="Builder+ILI9486Rgb666/u8/Serial, no reset pin" bounds="same" timeout=600 mem=4
h!(c17_nopin_ili9486_666, 20, builder_nopin_h::<_, u8, 0>(ILI9486Rgb666));
//@ props=C11,C12,C13,C17 pick=bnopin:3@C12+C13 inst="Builder+ILI9488Rgb565/u8/Parallel8, no reset pin" bounds="same" timeout=600 mem=4
h!(c17_nopin_ili9488_565, 20, builder_nopin_h::<_, u8, 1>(ILI9488Rgb565));
//@ props=C11,C12,C13,C17 pick=bnopin:3@C12+C13 inst="Builder+ST7789/u8/Parallel8, no reset pin" bounds="same" timeout=600 mem=4
h!(c17_nopin_st7789, 20, builder_nopin_h::<_, u8, 1>(ST7789));
//@ props=C11,C12,C13,C17 pick=bnopin:3@C12+C13 inst="Builder+ST7735s/u16/Parallel16, no reset pin" bounds="same" timeout=600 mem=4
h!(c17_nopin_st7735s, 20, builder_nopin_h::<_, u16, 2>(ST7735s));
//@ props=C11,C12,C13,C17 pick=bnopin:3@C12+C13 inst="Builder+RM67162/u8/Parallel8, no reset pin" bounds="same" timeout=600 mem=4
h!(c17_nopin_rm67162, 20, builder_nopin_h::<_, u8, 1>(RM67162));
//@ props=C11,C12,C13,C17 pick=bnopin:3@C12+C13 inst="Builder+GC9107/u8/Serial, no reset pin" bounds="same" timeout=600 mem=4
h!(c17_nopin_gc9107, 20, builder_nopin_h::<_, u8, 0>(GC9107));
//@ props=C11,C12,C13,C17 pick=bnopin:3@C12+C13 inst="Builder+GC9A01/u8/Parallel8, no reset pin" bounds="same" timeout=900 mem=4
h!(c17_nopin_gc9a01, 20, builder_nopin_h::<_, u8, 1>(GC9A01));

/// the interface kind each real transport announces, and a refusal seen through a real transport
#[kani::proof]
#[kani::unwind(20)]
//@ props=C11,C07 inst="KIND of SpiInterface / ParallelInterface<Generic8BitBus|Generic16BitBus>; GC9107 and RM67162 on the real 16-bit parallel interface" bounds="constants; init with default options, reset pin" timeout=600 mem=4
fn c11_transport_kinds() {
    use crate::busenv::*;
    use mipidsi::interface::{Interface, InterfaceKind, OutputBus, ParallelInterface, SpiInterface};
    assert!(matches!(<SpiInterface<'static, SpiDev, SpiDc> as Interface>::KIND, InterfaceKind::Serial4Line), "[C11] SpiInterface is Serial4Line");
    assert!(matches!(<Bus8 as OutputBus>::KIND, InterfaceKind::Parallel8Bit), "[C11][C07] Generic8BitBus is Parallel8Bit");
    assert!(matches!(<Bus16 as OutputBus>::KIND, InterfaceKind::Parallel16Bit), "[C11][C07] Generic16BitBus is Parallel16Bit");
    assert!(matches!(<ParallelInterface<Bus8, ParDc, ParWr> as Interface>::KIND, InterfaceKind::Parallel8Bit), "[C11] 8-bit parallel interface kind");
    assert!(matches!(<ParallelInterface<Bus16, ParDc, ParWr> as Interface>::KIND, InterfaceKind::Parallel16Bit), "[C11] 16-bit parallel interface kind");
    // if a model refuses the real 16-bit parallel interface, it does so before anything is
    // strobed (one-directional: a model that starts supporting the interface is not an alarm)
    let mut pw = ParWorld::new(0, true, 0);
    let w: *mut ParWorld = &mut pw;
    let di = ParallelInterface::new(bus16(w), ParDc(w), ParWr(w));
    let r = Builder::new(GC9107, di).reset_pin(crate::env::Pin).init(&mut crate::env::NoDelay);
    if matches!(r, Err(InitError::InvalidConfiguration(ConfigurationError::UnsupportedInterface))) {
        assert!(pw.edges == 0 && pw.ops == 0, "[C11] refused before any word is strobed");
    }
    let refused1 = r.is_err();
    let mut pw2 = ParWorld::new(0, true, 0);
    let w2: *mut ParWorld = &mut pw2;
    let di = ParallelInterface::new(bus16(w2), ParDc(w2), ParWr(w2));
    let r = Builder::new(RM67162, di).reset_pin(crate::env::Pin).init(&mut crate::env::NoDelay);
    if matches!(r, Err(InitError::InvalidConfiguration(ConfigurationError::UnsupportedInterface))) {
        assert!(pw2.edges == 0 && pw2.ops == 0, "[C11] refused before any word is strobed");
    }
    let _ = refused1;
    kani::cover!(true, "cover: reached");
}
