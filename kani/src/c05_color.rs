//! C05: colour values are encoded on the bus as the announced pixel format requires.
use crate::env::E;
use crate::oracle::Wire;
use embedded_graphics_core::pixelcolor::{Rgb565, Rgb666, RgbColor};
use mipidsi::interface::{Interface, InterfaceKind, InterfacePixelFormat};

/// records the words of up to 4 pixels
pub struct WordRec<W: Copy + Default> {
    pub n_per_pixel: usize,
    pub words: [W; 12],
    pub nwords: usize,
    pub calls: u32,
}
impl<W: Copy + Default> WordRec<W> {
    pub fn new() -> Self {
        WordRec { n_per_pixel: 0, words: [W::default(); 12], nwords: 0, calls: 0 }
    }
    fn push<const N: usize>(&mut self, p: [W; N]) {
        self.n_per_pixel = N;
        let mut i = 0;
        while i < N {
            if self.nwords < 12 {
                self.words[self.nwords] = p[i];
            }
            self.nwords += 1;
            i += 1;
        }
    }
}
macro_rules! impl_rec {
    ($w:ty, $kind:expr) => {
        impl Interface for WordRec<$w> {
            type Word = $w;
            type Error = E;
            const KIND: InterfaceKind = $kind;
            fn send_command(&mut self, _c: u8, _a: &[u8]) -> Result<(), E> {
                Ok(())
            }
            fn send_pixels<const N: usize>(&mut self, pixels: impl IntoIterator<Item = [$w; N]>) -> Result<(), E> {
                self.calls += 1;
                for p in pixels {
                    self.push(p);
                }
                Ok(())
            }
            fn send_repeated_pixel<const N: usize>(&mut self, p: [$w; N], count: u32) -> Result<(), E> {
                self.calls += 1;
                let mut i = 0;
                while i < count {
                    self.push(p);
                    i += 1;
                }
                Ok(())
            }
        }
    };
}
impl_rec!(u8, InterfaceKind::Serial4Line);
impl_rec!(u16, InterfaceKind::Parallel16Bit);

#[kani::proof]
#[kani::unwind(5)]
//@ props=C05 inst="Rgb565 on an 8-bit bus" bounds="all 65536 colours; stream of 2 pixels and repeat count 0..=2" timeout=300 mem=3
fn c05_rgb565_u8() {
    let c = <Rgb565 as Wire>::any();
    let c2 = <Rgb565 as Wire>::any();
    let raw: u16 = ((c.r() as u16) << 11) | ((c.g() as u16) << 5) | c.b() as u16;
    let raw2: u16 = ((c2.r() as u16) << 11) | ((c2.g() as u16) << 5) | c2.b() as u16;
    let mut a = WordRec::<u8>::new();
    <Rgb565 as InterfacePixelFormat<u8>>::send_pixels(&mut a, [c, c2]).unwrap();
    assert!(a.n_per_pixel == 2 && a.nwords == 4 && a.calls == 1, "[C05] RGB565 is two bytes per pixel");
    assert!(a.words[0] == (raw >> 8) as u8 && a.words[1] == raw as u8, "[C05] RGB565 most-significant byte first");
    assert!(a.words[2] == (raw2 >> 8) as u8 && a.words[3] == raw2 as u8, "[C05] second pixel follows, same encoding");
    // decode
    let back = ((a.words[0] as u16) << 8) | a.words[1] as u16;
    assert!((back >> 11) as u8 == c.r() && ((back >> 5) & 0x3f) as u8 == c.g() && (back & 0x1f) as u8 == c.b(), "[C05] decoding the traffic returns the colour");
    let count: u32 = kani::any();
    kani::assume(count <= 2);
    let mut b = WordRec::<u8>::new();
    <Rgb565 as InterfacePixelFormat<u8>>::send_repeated_pixel(&mut b, c, count).unwrap();
    assert!(b.nwords == 2 * count as usize, "[C05] solid fill sends count pixels");
    if count >= 1 {
        assert!(b.n_per_pixel == 2 && b.words[0] == a.words[0] && b.words[1] == a.words[1], "[C05] solid fill encodes like a pixel stream");
    }
    if count == 2 {
        assert!(b.words[2] == a.words[0] && b.words[3] == a.words[1], "[C05] solid fill repeats the same encoding");
    }
    kani::cover!(count == 2 && raw == 0x1234, "cover");
}

#[kani::proof]
#[kani::unwind(5)]
//@ props=C05 inst="Rgb565 on a 16-bit bus" bounds="all 65536 colours; stream of 2 pixels and repeat count 0..=2" timeout=300 mem=3
fn c05_rgb565_u16() {
    let c = <Rgb565 as Wire>::any();
    let c2 = <Rgb565 as Wire>::any();
    let raw: u16 = ((c.r() as u16) << 11) | ((c.g() as u16) << 5) | c.b() as u16;
    let raw2: u16 = ((c2.r() as u16) << 11) | ((c2.g() as u16) << 5) | c2.b() as u16;
    let mut a = WordRec::<u16>::new();
    <Rgb565 as InterfacePixelFormat<u16>>::send_pixels(&mut a, [c, c2]).unwrap();
    assert!(a.n_per_pixel == 1 && a.nwords == 2, "[C05] RGB565 is one word per pixel on a 16-bit bus");
    assert!(a.words[0] == raw && a.words[1] == raw2, "[C05] the word is the RGB565 value");
    let count: u32 = kani::any();
    kani::assume(count <= 2);
    let mut b = WordRec::<u16>::new();
    <Rgb565 as InterfacePixelFormat<u16>>::send_repeated_pixel(&mut b, c, count).unwrap();
    assert!(b.nwords == count as usize, "[C05] solid fill sends count pixels");
    if count >= 1 {
        assert!(b.words[0] == raw, "[C05] solid fill encodes like a pixel stream");
    }
    if count == 2 {
        assert!(b.words[1] == raw, "[C05] solid fill repeats the same encoding");
    }
    kani::cover!(count == 2 && raw == 0xFEDC, "cover");
}

#[kani::proof]
#[kani::unwind(7)]
//@ props=C05 inst="Rgb666 on an 8-bit bus" bounds="all 262144 colours; stream of 2 pixels and repeat count 0..=2" timeout=300 mem=3
fn c05_rgb666_u8() {
    let c = <Rgb666 as Wire>::any();
    let c2 = <Rgb666 as Wire>::any();
    let mut a = WordRec::<u8>::new();
    <Rgb666 as InterfacePixelFormat<u8>>::send_pixels(&mut a, [c, c2]).unwrap();
    assert!(a.n_per_pixel == 3 && a.nwords == 6, "[C05] RGB666 is three bytes per pixel");
    assert!(a.words[0] == c.r() << 2 && a.words[1] == c.g() << 2 && a.words[2] == c.b() << 2, "[C05] R,G,B with the six bits left-aligned");
    assert!(a.words[3] == c2.r() << 2 && a.words[4] == c2.g() << 2 && a.words[5] == c2.b() << 2, "[C05] second pixel follows, same encoding");
    assert!(a.words[0] >> 2 == c.r() && a.words[1] >> 2 == c.g() && a.words[2] >> 2 == c.b() && c.r() < 64 && c.g() < 64 && c.b() < 64, "[C05] decoding the traffic returns the colour");
    let count: u32 = kani::any();
    kani::assume(count <= 2);
    let mut b = WordRec::<u8>::new();
    <Rgb666 as InterfacePixelFormat<u8>>::send_repeated_pixel(&mut b, c, count).unwrap();
    assert!(b.nwords == 3 * count as usize, "[C05] solid fill sends count pixels");
    if count >= 1 {
        assert!(b.words[0] == a.words[0] && b.words[1] == a.words[1] && b.words[2] == a.words[2], "[C05] solid fill encodes like a pixel stream");
    }
    if count == 2 {
        assert!(b.words[3] == a.words[0] && b.words[4] == a.words[1] && b.words[5] == a.words[2], "[C05] solid fill repeats the same encoding");
    }
    kani::cover!(count == 2 && c.r() == 63 && c.b() == 1, "cover");
}
