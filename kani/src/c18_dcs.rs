//! C18: DCS command serialisation: opcode table, big-endian parameters, nothing beyond n.
use crate::env::E;
use crate::sym::*;
use mipidsi::dcs::*;
use mipidsi::interface::{Interface, InterfaceKind};
use mipidsi::options::{ColorInversion, TearingEffect};

/// exact recorder of the last command
pub struct Rec {
    pub calls: u32,
    pub cmd: u8,
    pub n: usize,
    pub args: [u8; 48],
    pub pixel_calls: u32,
}
impl Rec {
    pub fn new() -> Self {
        Rec { calls: 0, cmd: 0, n: 0, args: [0; 48], pixel_calls: 0 }
    }
}
impl Interface for Rec {
    type Word = u8;
    type Error = E;
    const KIND: InterfaceKind = InterfaceKind::Serial4Line;
    fn send_command(&mut self, command: u8, args: &[u8]) -> Result<(), E> {
        self.calls += 1;
        self.cmd = command;
        self.n = args.len();
        let mut i = 0;
        while i < 48 {
            if i < args.len() {
                self.args[i] = args[i];
            }
            i += 1;
        }
        Ok(())
    }
    fn send_pixels<const N: usize>(&mut self, _p: impl IntoIterator<Item = [u8; N]>) -> Result<(), E> {
        self.pixel_calls += 1;
        Ok(())
    }
    fn send_repeated_pixel<const N: usize>(&mut self, _p: [u8; N], _c: u32) -> Result<(), E> {
        self.pixel_calls += 1;
        Ok(())
    }
}

/// serialise `cmd` into a buffer with symbolic prior content; check opcode, count, bytes,
/// untouched tail; then check write_command puts exactly that on the bus.
fn check<C: DcsCommand + Clone>(cmd: C, opcode: u8, params: &[u8]) {
    let prior: [u8; 16] = kani::any();
    let mut buf = prior;
    assert!(cmd.instruction() == opcode, "[C18] MIPI opcode");
    let n = cmd.fill_params_buf(&mut buf);
    assert!(n == params.len(), "[C18] number of parameter bytes reported");
    let j: usize = kani::any();
    kani::assume(j < 16);
    if j < n {
        assert!(buf[j] == params[j], "[C18] parameter byte (big-endian)");
    } else {
        assert!(buf[j] == prior[j], "[C18] byte beyond the parameters untouched");
    }
    let mut rec = Rec::new();
    rec.write_command(cmd.clone()).unwrap();
    assert!(rec.calls == 1 && rec.pixel_calls == 0, "[C18] write_command is one command");
    assert!(rec.cmd == opcode && rec.n == params.len(), "[C18] write_command sends the opcode and exactly n bytes");
    if j < params.len() {
        assert!(rec.args[j] == params[j], "[C18] write_command sends the parameter bytes");
    }
    // through the blanket impl for &mut T
    let mut rec2 = Rec::new();
    {
        let mut r: &mut Rec = &mut rec2;
        (&mut r).write_command(cmd).unwrap();
    }
    assert!(rec2.calls == 1 && rec2.cmd == opcode && rec2.n == params.len(), "[C18] same through &mut T");
}

#[derive(Clone)]
struct W<T>(T);

macro_rules! basic {
    ($t:ident, $op:expr) => {{
        struct L;
        impl Clone for L { fn clone(&self) -> Self { L } }
        impl DcsCommand for L {
            fn instruction(&self) -> u8 { $t.instruction() }
            fn fill_params_buf(&self, b: &mut [u8]) -> usize { $t.fill_params_buf(b) }
        }
        check(L, $op, &[]);
    }};
}

#[kani::proof]
#[kani::unwind(50)]
//@ props=C18 inst="the ten parameter-less commands" bounds="16-byte buffer with symbolic prior content; symbolic byte index" timeout=300 mem=3
fn c18_basic() {
    basic!(SoftReset, 0x01);
    basic!(EnterSleepMode, 0x10);
    basic!(ExitSleepMode, 0x11);
    basic!(EnterPartialMode, 0x12);
    basic!(EnterNormalMode, 0x13);
    basic!(SetDisplayOff, 0x28);
    basic!(SetDisplayOn, 0x29);
    basic!(ExitIdleMode, 0x38);
    basic!(EnterIdleMode, 0x39);
    basic!(WriteMemoryStart, 0x2C);
    kani::cover!(true, "cover: reached");
}

#[kani::proof]
#[kani::unwind(50)]
//@ props=C18,C08 inst="SetColumnAddress, SetPageAddress" bounds="all 2^32 start/end pairs each" timeout=300 mem=3
fn c18_address() {
    let (s, e): (u16, u16) = (kani::any(), kani::any());
    check(SetColumnAddress::new(s, e), 0x2A, &[(s >> 8) as u8, s as u8, (e >> 8) as u8, e as u8]);
    check(SetPageAddress::new(s, e), 0x2B, &[(s >> 8) as u8, s as u8, (e >> 8) as u8, e as u8]);
    kani::cover!(s > 255 && e > s, "cover: two-byte values");
}

#[kani::proof]
#[kani::unwind(50)]
//@ props=C18,C16 inst="SetScrollArea, SetScrollStart" bounds="all u16^3 / all u16" timeout=300 mem=3
fn c18_scroll() {
    let (a, b, c): (u16, u16, u16) = (kani::any(), kani::any(), kani::any());
    check(SetScrollArea::new(a, b, c), 0x33, &[(a >> 8) as u8, a as u8, (b >> 8) as u8, b as u8, (c >> 8) as u8, c as u8]);
    check(SetScrollStart::new(a), 0x37, &[(a >> 8) as u8, a as u8]);
    kani::cover!(a != c && a > 255, "cover: distinct top/bottom");
}

fn any_bpp() -> (BitsPerPixel, u8) {
    let k: u8 = kani::any();
    kani::assume(k < 6);
    match k {
        0 => (BitsPerPixel::Three, 0b001),
        1 => (BitsPerPixel::Eight, 0b010),
        2 => (BitsPerPixel::Twelve, 0b011),
        3 => (BitsPerPixel::Sixteen, 0b101),
        4 => (BitsPerPixel::Eighteen, 0b110),
        _ => (BitsPerPixel::TwentyFour, 0b111),
    }
}

#[kani::proof]
#[kani::unwind(50)]
//@ props=C18,C05 inst="SetPixelFormat, SetTearingEffect, SetInvertMode, SetAddressMode" bounds="all enum variants (6x6 pixel formats, 3 tearing modes, 2 inversions, 64 address modes)" timeout=300 mem=3
fn c18_enums() {
    let (dpi, dv) = any_bpp();
    let (dbi, bv) = any_bpp();
    check(SetPixelFormat::new(PixelFormat::new(dpi, dbi)), 0x3A, &[(dv << 4) | bv]);
    check(SetPixelFormat::new(PixelFormat::with_all(dbi)), 0x3A, &[(bv << 4) | bv]);
    match any_tearing() {
        TearingEffect::Off => check(SetTearingEffect::new(TearingEffect::Off), 0x34, &[]),
        TearingEffect::Vertical => check(SetTearingEffect::new(TearingEffect::Vertical), 0x35, &[0]),
        TearingEffect::HorizontalAndVertical => check(SetTearingEffect::new(TearingEffect::HorizontalAndVertical), 0x35, &[1]),
    }
    check(SetInvertMode::new(ColorInversion::Normal), 0x20, &[]);
    check(SetInvertMode::new(ColorInversion::Inverted), 0x21, &[]);
    let (co, o, ro) = (any_color_order(), any_orientation(), any_refresh());
    check(SetAddressMode::new(co, o, ro), 0x36, &[crate::oracle::expected_madctl(co, o, ro)]);
    kani::cover!(dv != bv, "cover: distinct dpi/dbi");
}

#[kani::proof]
#[kani::unwind(50)]
//@ props=C18 inst="InterfaceExt::write_raw, also through &mut T" bounds="any instruction byte, parameter slices of length 0..=40 with symbolic content" timeout=600 mem=4
fn c18_write_raw() {
    let instr: u8 = kani::any();
    let data: [u8; 40] = kani::any();
    let n: usize = kani::any();
    kani::assume(n <= 40);
    let mut rec = Rec::new();
    rec.write_raw(instr, &data[..n]).unwrap();
    let j: usize = kani::any();
    kani::assume(j < 40);
    assert!(rec.calls == 1 && rec.pixel_calls == 0 && rec.cmd == instr && rec.n == n, "[C18] write_raw sends the instruction and exactly the given bytes");
    if j < n {
        assert!(rec.args[j] == data[j], "[C18] write_raw parameter byte");
    }
    let mut rec2 = Rec::new();
    {
        let mut r: &mut Rec = &mut rec2;
        (&mut r).write_raw(instr, &data[..n]).unwrap();
    }
    assert!(rec2.calls == 1 && rec2.cmd == instr && rec2.n == n, "[C18] write_raw through &mut T");
    if j < n {
        assert!(rec2.args[j] == data[j], "[C18] write_raw parameter byte through &mut T");
    }
    kani::cover!(n == 40 && j == 39, "cover: longest slice");
    kani::cover!(n == 0, "cover: empty slice");
}
