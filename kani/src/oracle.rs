//! Reference models.  Nothing in here is taken from /repo.

use embedded_graphics_core::pixelcolor::{raw::RawU16, raw::RawU24, Rgb565, Rgb666, RgbColor};
use embedded_graphics_core::prelude::{PixelColor, RawData};
use mipidsi::options::{
    ColorOrder, HorizontalRefreshOrder, Orientation, RefreshOrder, Rotation, VerticalRefreshOrder,
};

/// Physical framebuffer cell of the logical point `(x, y)`: rotate the logical image
/// clockwise by `o.rotation` inside the `w x h` panel, mirror left-right if mirrored,
/// shift by the offset.  Caller guarantees that (x, y) is inside the logical size.
#[inline(always)]
pub fn expected(o: Orientation, w: u16, h: u16, ox: u16, oy: u16, x: u16, y: u16) -> (u16, u16) {
    let (px, py) = match o.rotation {
        Rotation::Deg0 => (x, y),
        Rotation::Deg90 => (w - 1 - y, x),
        Rotation::Deg180 => (w - 1 - x, h - 1 - y),
        Rotation::Deg270 => (y, h - 1 - x),
    };
    let px = if o.mirrored { w - 1 - px } else { px };
    (px + ox, py + oy)
}

/// Logical size of a `w x h` panel under orientation `o`.
#[inline(always)]
pub fn logical_size(o: Orientation, w: u16, h: u16) -> (u16, u16) {
    match o.rotation {
        Rotation::Deg0 | Rotation::Deg180 => (w, h),
        Rotation::Deg90 | Rotation::Deg270 => (h, w),
    }
}

/// Explicit inverse of `expected`: the logical point whose image is `cell`, or None if
/// `cell` lies outside the panel window.
#[inline(always)]
pub fn inv_expected(
    o: Orientation,
    w: u16,
    h: u16,
    ox: u16,
    oy: u16,
    cell: (u16, u16),
) -> Option<(u16, u16)> {
    let (cx, cy) = (cell.0 as u32, cell.1 as u32);
    if cx < ox as u32 || cx >= ox as u32 + w as u32 || cy < oy as u32 || cy >= oy as u32 + h as u32
    {
        return None;
    }
    let px = cell.0 - ox;
    let py = cell.1 - oy;
    let px = if o.mirrored { w - 1 - px } else { px };
    Some(match o.rotation {
        Rotation::Deg0 => (px, py),
        Rotation::Deg90 => (py, w - 1 - px),
        Rotation::Deg180 => (w - 1 - px, h - 1 - py),
        Rotation::Deg270 => (h - 1 - py, px),
    })
}

/// init acceptance predicate in mathematical integers
#[inline(always)]
pub fn init_ok(fw: u16, fh: u16, w: u16, h: u16, ox: u16, oy: u16) -> bool {
    let (fw, fh, w, h, ox, oy) = (fw as u64, fh as u64, w as u64, h as u64, ox as u64, oy as u64);
    w >= 1 && h >= 1 && w <= fw && h <= fh && ox + w <= fw && oy + h <= fh
}
/// zero or oversize
#[inline(always)]
pub fn size_bad(fw: u16, fh: u16, w: u16, h: u16) -> bool {
    w == 0 || h == 0 || w > fw || h > fh
}

/// MIPI DCS set_address_mode parameter.
/// (MY,MX,MV) per rotation: 0 -> 000, 90 -> 011, 180 -> 110, 270 -> 101; MX flipped if mirrored.
#[inline(always)]
pub fn expected_madctl(co: ColorOrder, o: Orientation, ro: RefreshOrder) -> u8 {
    let (my, mx, mv) = match o.rotation {
        Rotation::Deg0 => (false, false, false),
        Rotation::Deg90 => (false, true, true),
        Rotation::Deg180 => (true, true, false),
        Rotation::Deg270 => (true, false, true),
    };
    let mx = mx ^ o.mirrored;
    (my as u8) << 7
        | (mx as u8) << 6
        | (mv as u8) << 5
        | ((ro.vertical == VerticalRefreshOrder::BottomToTop) as u8) << 4
        | ((co == ColorOrder::Bgr) as u8) << 3
        | ((ro.horizontal == HorizontalRefreshOrder::RightToLeft) as u8) << 2
}

/// Colours as they must appear on the wire, folded most-significant word first.
pub trait Wire: PixelColor + RgbColor {
    /// number of 8-bit words per pixel
    const NB: usize;
    /// DBI field of COLMOD announcing this format
    const DBI: u8;
    fn wire(self) -> u32;
    /// a colour that encodes the index k (injective for k < 65536)
    fn from_index(k: u32) -> Self;
    fn any() -> Self;
}
impl Wire for Rgb565 {
    const NB: usize = 2;
    const DBI: u8 = 0b101;
    #[inline(always)]
    fn wire(self) -> u32 {
        ((self.r() as u32) << 11) | ((self.g() as u32) << 5) | self.b() as u32
    }
    #[inline(always)]
    fn from_index(k: u32) -> Self {
        Rgb565::from(RawU16::new(k as u16))
    }
    #[inline(always)]
    fn any() -> Self {
        Rgb565::from(RawU16::new(kani::any()))
    }
}
impl Wire for Rgb666 {
    const NB: usize = 3;
    const DBI: u8 = 0b110;
    #[inline(always)]
    fn wire(self) -> u32 {
        (((self.r() as u32) << 2) << 16) | (((self.g() as u32) << 2) << 8) | ((self.b() as u32) << 2)
    }
    #[inline(always)]
    fn from_index(k: u32) -> Self {
        Rgb666::new(((k >> 12) & 0x3f) as u8, ((k >> 6) & 0x3f) as u8, (k & 0x3f) as u8)
    }
    #[inline(always)]
    fn any() -> Self {
        let v: u32 = kani::any();
        Rgb666::from(RawU24::new(v & 0x3ffff))
    }
}
#[allow(dead_code)]
fn _unused(_: RawU24) -> u32 {
    RawU24::new(0).into_inner()
}
