//! End-to-end: the real Display over the real transports, decoded on the wire
//! (C01 placement, C08 framing at byte level, C12/C17 full-stack fault and reset behaviour).
use crate::c01_placement::{any_cfg, any_probe, Cfg};
use crate::env::*;
use crate::oracle::*;
use crate::sym::*;
use crate::wire::*;
use embedded_graphics_core::{pixelcolor::{Rgb565, Rgb666}, prelude::*, primitives::Rectangle};
use mipidsi::interface::{InterfacePixelFormat, ParallelError, ParallelInterface, SpiError, SpiInterface};
use mipidsi::models::Model;
use mipidsi::{Builder, InitError};

fn assert_wire_framing(w: &WireWorld) {
    let c = &w.core;
    assert!(!c.f_nowr && !c.f_plen && !c.f_sgt && !c.f_beyond && !c.f_order && !c.f_foreign && !c.f_overrun, "[C08] framing on the wire: CASET, RASET, RAMWR, pixel data; 4 big-endian parameter bytes; start <= end inside the framebuffer; no overrun");
    assert!(!w.f_partial, "[C08][C06] pixel data is a whole number of pixels");
}

/// set_pixel + small fill_solid over the real SpiInterface with a symbolic buffer length
fn e2e_spi_h<M: Model>(m: M, lmax: usize)
where
    M::ColorFormat: InterfacePixelFormat<u8> + Wire,
{
    let probe = any_probe::<M>();
    let (fw, fh) = M::FRAMEBUFFER_SIZE;
    let nb = <M::ColorFormat as Wire>::NB;
    let mut ww = WireWorld::new(NEVER, fw, fh, probe, nb, 8);
    let wp: *mut WireWorld = &mut ww;
    let mut backing = [0u8; 8];
    // concrete buffer length here (symbolic lengths are C06's subject)
    let len: usize = lmax;
    let cfg = Cfg { w: fw, h: fh, ox: 0, oy: 0, o: any_orientation() };
    let di = SpiInterface::new(WSpi(wp), WDc(wp), &mut backing[..len]);
    let Ok(mut d) = Builder::new(m, di)
        .display_size(cfg.w, cfg.h)
        .display_offset(cfg.ox, cfg.oy)
        .orientation(cfg.o)
        .reset_pin(WRst(wp))
        .init(&mut WClock(wp))
    else {
        return;
    };
    ww.finish();
    ww.core.arm();
    let sz = d.size();
    let (x, y): (u16, u16) = (kani::any(), kani::any());
    kani::assume((x as u32) < sz.width && (y as u32) < sz.height);
    let col = <M::ColorFormat as Wire>::any();
    d.set_pixel(x, y, col).unwrap();
    ww.finish();
    assert_wire_framing(&ww);
    let e = cfg.exp(x, y);
    if e == probe {
        assert!(ww.core.probe_writes == 1 && ww.core.probe_val == col.wire(), "[C01][C05][C06] pixel decoded from the SPI byte stream lands at the oriented, offset cell with its colour");
    } else {
        assert!(ww.core.probe_writes == 0, "[C01] no other cell changes");
    }
    // a small fill: up to 2x2 around a symbolic corner
    ww.core.probe_writes = 0;
    let (rx, ry): (i32, i32) = (kani::any(), kani::any());
    kani::assume(rx >= -1 && rx <= 3 && ry >= -1 && ry <= 2);
    let rect = Rectangle::new(Point::new(rx, ry), Size::new(2, 2));
    let col2 = <M::ColorFormat as Wire>::any();
    d.fill_solid(&rect, col2).unwrap();
    ww.finish();
    assert_wire_framing(&ww);
    let inside = |x: u16, y: u16| (x as i32) >= rx && (x as i32) < rx + 2 && (y as i32) >= ry && (y as i32) < ry + 2;
    match cfg.inv(probe) {
        Some((px, py)) if inside(px, py) => assert!(ww.core.probe_writes == 1 && ww.core.probe_val == col2.wire(), "[C01][C06] fill decoded from the SPI byte stream covers the clipped rectangle"),
        _ => assert!(ww.core.probe_writes == 0, "[C01][C02] fill touches nothing else"),
    }
    kani::cover!(e == probe, "cover: hit");
}

/// the same over the 8-bit parallel interface
fn e2e_par8_h<M: Model>(m: M)
where
    M::ColorFormat: InterfacePixelFormat<u8> + Wire,
{
    let probe = any_probe::<M>();
    let (fw, fh) = M::FRAMEBUFFER_SIZE;
    let nb = <M::ColorFormat as Wire>::NB;
    let mut ww = WireWorld::new(NEVER, fw, fh, probe, nb, 8);
    ww.levels = kani::any();
    let wp: *mut WireWorld = &mut ww;
    let cfg = Cfg { w: fw, h: fh, ox: 0, oy: 0, o: any_orientation() };
    let di = ParallelInterface::new(wbus8(wp), WDc(wp), WWr(wp));
    let Ok(mut d) = Builder::new(m, di)
        .display_size(cfg.w, cfg.h)
        .display_offset(cfg.ox, cfg.oy)
        .orientation(cfg.o)
        .init(&mut WClock(wp))
    else {
        return;
    };
    ww.finish();
    assert!(ww.core.first_cmd == 0x01 && ww.core.swreset == 1, "[C17] without a reset pin the first word latched on the bus is the software reset, whatever the pins showed before");
    ww.core.arm();
    let sz = d.size();
    let (x, y): (u16, u16) = (kani::any(), kani::any());
    kani::assume((x as u32) < sz.width && (y as u32) < sz.height);
    let col = <M::ColorFormat as Wire>::any();
    d.set_pixel(x, y, col).unwrap();
    ww.finish();
    assert_wire_framing(&ww);
    let e = cfg.exp(x, y);
    if e == probe {
        assert!(ww.core.probe_writes == 1 && ww.core.probe_val == col.wire(), "[C01][C05][C07] pixel decoded from the latched words lands at the oriented, offset cell with its colour");
    } else {
        assert!(ww.core.probe_writes == 0, "[C01] no other cell changes");
    }
    kani::cover!(e == probe, "cover: hit");
}

/// full stack with a symbolic failing low-level operation: init of a built-in model over the
/// real SpiInterface (fault semantics and reset ordering only; what init programs is checked at
/// the Interface level by C11 and on the wire by the fault-free e2e harnesses)
fn full_spi_fault_h<M: Model>(m: M)
where
    M::ColorFormat: InterfacePixelFormat<u8> + Wire,
{
    use crate::busenv::*;
    let mut sw = SpiWorld::new(kani::any(), 0, 400, true);
    let wp: *mut SpiWorld = &mut sw;
    let mut backing = [0u8; 6];
    let opts = crate::c11_model_init::any_options::<M>();
    let di = SpiInterface::new(SpiDev(wp), SpiDc(wp), &mut backing);
    let r = Builder::new(m, di)
        .display_size(opts.display_size.0, opts.display_size.1)
        .display_offset(opts.display_offset.0, opts.display_offset.1)
        .color_order(opts.color_order)
        .orientation(opts.orientation)
        .invert_colors(opts.invert_colors)
        .refresh_order(opts.refresh_order)
        .reset_pin(SpiRst(wp))
        .init(&mut NoDelay);
    crate::indep! { assert!(sw.ops_after_fail == 0, "[C12] no pin or SPI operation after the failing one"); }
    assert!(sw.spi_while_rst_low == 0 && sw.spi_before_rst == 0, "[C17] nothing on the SPI bus before the reset pin is high again");
    match r {
        Ok(mut d) => {
            assert!(!sw.failed, "[C12] a failed operation must be reported");
            assert!(sw.rst_calls == 2 && sw.rst_final_high, "[C17] reset pin pulsed and left high");
            // a fill under the same fault schedule
            let r2 = d.fill_solid(&Rectangle::new(Point::new(1, 1), Size::new(2, 1)), <M::ColorFormat as Wire>::any());
            assert!(sw.ops_after_fail == 0, "[C12] no operation after the failing one (drawing)");
            match r2 {
                Ok(()) => assert!(!sw.failed, "[C12] a failed operation must be reported (drawing)"),
                Err(SpiError::Spi(e)) => assert!(sw.failed_kind == E_SPI && e == E(E_SPI), "[C12] SPI failure reported as SpiError::Spi"),
                Err(SpiError::Dc(e)) => assert!(sw.failed_kind == E_DC && e == E(E_DC), "[C12] DC failure reported as SpiError::Dc"),
            }
            kani::cover!(r2.is_err(), "cover: fault during drawing");
        }
        Err(InitError::Interface(SpiError::Spi(e))) => assert!(sw.failed && sw.failed_kind == E_SPI && e == E(E_SPI), "[C12] SPI failure wrapped as Interface(Spi)"),
        Err(InitError::Interface(SpiError::Dc(e))) => assert!(sw.failed && sw.failed_kind == E_DC && e == E(E_DC), "[C12] DC failure wrapped as Interface(Dc)"),
        Err(InitError::ResetPin(e)) => assert!(sw.failed && sw.failed_kind == E_RST && e == E(E_RST) && sw.transactions == 0, "[C12] reset pin failure wrapped as ResetPin, nothing on the bus"),
        Err(InitError::InvalidConfiguration(_)) => assert!(false, "[C11] supported pairing refused"),
    }
    kani::cover!(sw.failed && sw.failed_kind == E_DC && sw.ops > 8, "cover: DC fault in the middle of init");
}

/// full stack over the 8-bit parallel interface, no reset pin
fn full_par8_fault_h<M: Model>(m: M)
where
    M::ColorFormat: InterfacePixelFormat<u8> + Wire,
{
    let (fw, fh) = M::FRAMEBUFFER_SIZE;
    let mut ww = WireWorld::new(kani::any(), fw, fh, (0, 0), <M::ColorFormat as Wire>::NB, 8);
    ww.levels = kani::any();
    let wp: *mut WireWorld = &mut ww;
    let opts = crate::c11_model_init::any_options::<M>();
    let di = ParallelInterface::new(wbus8(wp), WDc(wp), WWr(wp));
    let r = Builder::new(m, di)
        .display_size(opts.display_size.0, opts.display_size.1)
        .display_offset(opts.display_offset.0, opts.display_offset.1)
        .color_order(opts.color_order)
        .orientation(opts.orientation)
        .invert_colors(opts.invert_colors)
        .refresh_order(opts.refresh_order)
        .init(&mut WClock(wp));
    ww.finish();
    crate::indep! { assert!(ww.world.ops_after_fail == 0, "[C12] no pin operation after the failing one"); }
    match r {
        Ok(_d) => {
            assert!(!ww.world.failed, "[C12] a failed operation must be reported");
            crate::c11_model_init::assert_programmed(&ww.core, &ww.world, &opts, <M::ColorFormat as Wire>::DBI);
            assert!(ww.core.first_cmd == 0x01 && ww.core.swreset == 1 && ww.core.cmds_before_swreset == 0, "[C17] software reset first and once, as latched on the bus");
            kani::cover!(true, "cover: init ok");
        }
        Err(InitError::Interface(ParallelError::Bus(e))) => assert!(ww.failed_kind == E_BUS && e == E(E_BUS), "[C12] data pin failure wrapped as Interface(Bus)"),
        Err(InitError::Interface(ParallelError::Dc(e))) => assert!(ww.failed_kind == E_DC && e == E(E_DC), "[C12] DC failure wrapped as Interface(Dc)"),
        Err(InitError::Interface(ParallelError::Wr(e))) => assert!(ww.failed_kind == E_WR && e == E(E_WR), "[C12] WR failure wrapped as Interface(Wr)"),
        Err(_) => assert!(false, "[C11][C12] unexpected error kind"),
    }
    kani::cover!(ww.world.failed && ww.failed_kind == E_BUS, "cover: data pin fault");
}

macro_rules! h {
    ($name:ident, $unw:expr, $body:expr) => {
        #[kani::proof]
        #[kani::unwind($unw)]
        fn $name() {
            $body
        }
    };
}
//@ props=C01,C06,C08 tier=thorough inst="Display<SpiInterface, VModel<Rgb565,3,2>>" bounds="SPI buffer of 5 bytes, symbolic set_pixel then a 2x2 fill_solid at a symbolic corner, full-size window, 8 orientations; decoded from the byte stream" timeout=3600 mem=20 required=no
h!(c01_e2e_spi_565, 10, e2e_spi_h(VModel::<Rgb565, 3, 2>::new(), 5));
//@ props=C01,C06,C08 tier=thorough required=no inst="Display<SpiInterface, VModel<Rgb666,3,2>>" bounds="SPI buffer of 7 bytes, same" timeout=3600 mem=20
h!(c01_e2e_spi_666, 14, e2e_spi_h(VModel::<Rgb666, 3, 2>::new(), 7));
//@ props=C01,C07,C08,C17 tier=thorough inst="Display<ParallelInterface<Generic8BitBus>, VModel<Rgb565,3,2>>, no reset pin" bounds="symbolic initial pin levels, init without reset pin then a symbolic set_pixel, full-size window, 8 orientations; decoded from the latched words" timeout=3600 mem=20 required=no
h!(c01_e2e_par8_565, 10, e2e_par8_h(VModel::<Rgb565, 3, 2>::new()));
//@ props=C12,C11,C17 tier=thorough inst="Builder+ILI9341Rgb565 over the real SpiInterface, reset pin" bounds="all options x symbolic failing low-level operation (pin set / SPI write), then a 2x1 fill_solid; unwind 20" timeout=1800 mem=10
h!(c12_full_spi_ili9341, 20, full_spi_fault_h(mipidsi::models::ILI9341Rgb565));
//@ props=C12,C11,C17 tier=thorough inst="Builder+ST7789 over the real SpiInterface, reset pin" bounds="same" timeout=1800 mem=10
h!(c12_full_spi_st7789, 20, full_spi_fault_h(mipidsi::models::ST7789));
//@ props=C12,C11,C17 tier=thorough inst="Builder+ILI9486Rgb666 over the real SpiInterface, reset pin" bounds="same" timeout=3000 mem=12
h!(c12_full_spi_ili9486_666, 20, full_spi_fault_h(mipidsi::models::ILI9486Rgb666));
//@ props=C12,C11,C17 tier=thorough required=no inst="Builder+RM67162 over the real SpiInterface, reset pin" bounds="same" timeout=3600 mem=14
h!(c12_full_spi_rm67162, 20, full_spi_fault_h(mipidsi::models::RM67162));
//@ props=C12,C11,C17 tier=thorough inst="Builder+ST7789 over the real ParallelInterface<Generic8BitBus>, no reset pin" bounds="all options x symbolic failing pin operation x symbolic initial pin levels; unwind 20" timeout=2400 mem=12
h!(c12_full_par8_st7789, 20, full_par8_fault_h(mipidsi::models::ST7789));
const _U: Option<(Rgb666, Cfg)> = None;

/// C17 on the real 8-bit parallel interface: without a reset pin the first word latched is the
/// software reset with DC low, whatever levels the data pins had before.
#[kani::proof]
#[kani::unwind(6)]
//@ props=C17,C07 inst="Builder+VModel over ParallelInterface<Generic8BitBus>, no reset pin" bounds="symbolic initial data pin levels and DC level; all options of the VModel" timeout=900 mem=6
fn c17_par8_first_word() {
    use crate::busenv::*;
    let mut pw = ParWorld::new(kani::any(), kani::any(), 0);
    let w: *mut ParWorld = &mut pw;
    let di = ParallelInterface::new(bus8(w), ParDc(w), ParWr(w));
    let r = Builder::new(VModel::<Rgb565, 240, 320>::new(), di).orientation(any_orientation()).init(&mut NoDelay);
    assert!(r.is_ok(), "[C17] init over the parallel interface");
    assert!(pw.probe_hit && (pw.probe_word & 0xff) == 0x01 && !pw.probe_dc, "[C17][C07] the first word latched on the bus is the software reset (0x01) with DC low");
    assert!(pw.edges == 1 + 1 + 2, "[C17] reset, sleep-out, address mode + parameter");
    kani::cover!(pw.probe_hit, "cover: reached");
}
