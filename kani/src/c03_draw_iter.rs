//! C02 / C03 / C20 (black-box): draw_iter through the real Display.
use crate::c01_placement::*;
use crate::env::*;
use crate::oracle::*;
use crate::sym::*;
use embedded_graphics_core::{pixelcolor::Rgb565, prelude::*};

/// pixel source: concrete loop counter, symbolic length and content
pub struct PxSrc<const N: usize> {
    pub xs: [i32; N],
    pub ys: [i32; N],
    pub n: usize,
    pub k: usize,
}
impl<const N: usize> Iterator for PxSrc<N> {
    type Item = Pixel<Rgb565>;
    fn next(&mut self) -> Option<Self::Item> {
        let k = self.k;
        self.k += 1;
        if k < N && k < self.n {
            // colour encodes the index: k+1 (so that 0 never appears)
            Some(Pixel(Point::new(self.xs[k], self.ys[k]), Rgb565::from_index(k as u32 + 1)))
        } else {
            None
        }
    }
    /// exact, like the iterators of arrays, slices and Vecs that callers usually pass
    fn size_hint(&self) -> (usize, Option<usize>) {
        let rem = if self.k < N && self.k < self.n { (if self.n < N { self.n } else { N }) - self.k } else { 0 };
        (rem, Some(rem))
    }
}

/// `oob`: coordinates range over all of i32 x i32 (C02); otherwise in-bounds only (C03).
/// `fixed`: default configuration (full framebuffer, Deg0) instead of a symbolic one.
fn draw_iter_h<const FW: u16, const FH: u16, const N: usize>(oob: bool, fixed: bool) {
    let probe = any_probe::<VModel<Rgb565, FW, FH>>();
    let mut world = World::new(NEVER);
    let cfg = if fixed {
        Cfg { w: FW, h: FH, ox: 0, oy: 0, o: mipidsi::options::Orientation::new() }
    } else {
        any_cfg()
    };
    let Some(mut d) = build::<_, u8, 0, false>(VModel::<Rgb565, FW, FH>::new(), &mut world, probe, &cfg) else {
        return;
    };
    let sz = d.size();
    let xs: [i32; N] = kani::any();
    let ys: [i32; N] = kani::any();
    let n: usize = kani::any();
    kani::assume(n <= N);
    let mut inb = [false; N];
    let mut i = 0;
    while i < N {
        inb[i] = xs[i] >= 0 && (xs[i] as i64) < sz.width as i64 && ys[i] >= 0 && (ys[i] as i64) < sz.height as i64;
        if !oob {
            kani::assume(inb[i]);
        }
        i += 1;
    }
    let r = d.draw_iter(PxSrc::<N> { xs, ys, n, k: 0 });
    assert!(r.is_ok(), "[C02][C03] Ok without a bus fault");
    let (ctl, _, _) = d.release();
    let c = &ctl.c;
    assert_framing(c);
    crate::indep! { assert!(!c.f_overrun, "[C08] more pixel data than the window holds"); }
    // oracle: sequential set_pixel of the in-bounds pixels, in order
    let mut exp_val = 0u32;
    let mut exp_cnt = 0u32;
    let mut total = 0u32;
    let mut i = 0;
    while i < N {
        if i < n && inb[i] {
            total += 1;
            if cfg.exp(xs[i] as u16, ys[i] as u16) == probe {
                exp_val = Rgb565::from_index(i as u32 + 1).wire();
                exp_cnt += 1;
            }
        }
        i += 1;
    }
    assert!(c.pixels == total, "[C02][C03] exactly the in-bounds pixels are sent: none dropped, none duplicated");
    assert!(c.probe_writes == exp_cnt, "[C02][C03] each cell written once per in-bounds pixel addressed to it");
    if exp_cnt > 0 {
        assert!(c.probe_val == exp_val, "[C03][C01] last write in iterator order wins, right colour on the right cell");
    }
    crate::indep! { assert!(c.ramwr_count <= total, "[C20] never more window set-ups than in-bounds pixels"); }
    if N >= 2 && n == 2 && inb[0] && inb[1 % N] && ys[0] == ys[1 % N] && xs[1 % N] == xs[0] + 1 && cfg!(feature = "batch") {
        assert!(c.ramwr_count == 1, "[C20] a left-to-right run of two pixels is one burst");
    }
    kani::cover!(exp_cnt >= 1 && n == N, "cover: probe hit with a full stream");
    kani::cover!(!oob || (n == N && !inb[0] && xs[0] > 70000), "cover: far out-of-bounds pixel (C02 variant)");
}

macro_rules! h {
    ($name:ident, $unw:expr, $body:expr) => {
        #[kani::proof]
        #[kani::unwind($unw)]
        fn $name() {
            $body
        }
    };
}
//@ props=C02,C08,C03 cfg=smallcap,nobatch inst="VModel<Rgb565,3,2>, draw_iter (capacities 4/8 under hook H4 / no batching)" bounds="0..=1 pixel with coordinates anywhere in i32 x i32; all cfgs on the 3x2 framebuffer" timeout=1500 mem=8
h!(c02_draw_iter_1, 3, draw_iter_h::<3, 2, 1>(true, false));
//@ props=C02,C08 tier=thorough cfg=main inst="VModel<Rgb565,3,2>, draw_iter, real capacities 50/100" bounds="0..=1 pixel anywhere in i32 x i32; all cfgs" timeout=3000 mem=12
h!(c02_draw_iter_1_real, 3, draw_iter_h::<3, 2, 1>(true, false));
//@ props=C02,C08 cfg=nobatch inst="VModel<Rgb565,3,2>, draw_iter without batching" bounds="0..=2 pixels anywhere in i32 x i32; default cfg" timeout=1500 mem=8
h!(c02_draw_iter_2n, 4, draw_iter_h::<3, 2, 2>(true, true));
//@ props=C02,C08,C20 tier=thorough cfg=smallcap inst="VModel<Rgb565,3,2>, draw_iter, capacities 4/8 (hook H4)" bounds="0..=2 pixels anywhere in i32 x i32; default cfg" timeout=3600 mem=24
h!(c02_draw_iter_2s, 4, draw_iter_h::<3, 2, 2>(true, true));
//@ props=C02,C08 tier=thorough required=no cfg=main inst="VModel<Rgb565,3,2>, draw_iter, real capacities" bounds="0..=2 pixels anywhere in i32 x i32; default cfg" timeout=5400 mem=24
h!(c02_draw_iter_2, 4, draw_iter_h::<3, 2, 2>(true, true));
//@ props=C03,C01,C08,C20 cfg=smallcap,nobatch inst="VModel<Rgb565,3,2>, draw_iter (capacities 4/8 under hook H4 / no batching)" bounds="0..=1 in-bounds pixel; all cfgs" timeout=1500 mem=8
h!(c03_bb_1, 3, draw_iter_h::<3, 2, 1>(false, false));
//@ props=C03,C08,C20 tier=thorough cfg=main inst="VModel<Rgb565,3,2>, draw_iter, real capacities 50/100" bounds="0..=1 in-bounds pixel; all cfgs" timeout=3000 mem=12
h!(c03_bb_1_real, 3, draw_iter_h::<3, 2, 1>(false, false));
//@ props=C03,C01,C08 cfg=nobatch inst="VModel<Rgb565,3,2>, draw_iter without batching" bounds="0..=2 in-bounds pixels (any order, repeats); default cfg" timeout=1500 mem=8
h!(c03_bb_2n, 4, draw_iter_h::<3, 2, 2>(false, true));
//@ props=C03,C08,C20 tier=thorough cfg=smallcap inst="VModel<Rgb565,3,2>, draw_iter, capacities 4/8 (hook H4)" bounds="0..=2 in-bounds pixels (any order, repeats); default cfg" timeout=3600 mem=24
h!(c03_bb_2, 4, draw_iter_h::<3, 2, 2>(false, true));
//@ props=C03,C08,C20 tier=thorough required=no cfg=main inst="VModel<Rgb565,3,2>, draw_iter, real capacities 50/100" bounds="0..=2 in-bounds pixels; default cfg" timeout=5400 mem=24
h!(c03_bb_2real, 4, draw_iter_h::<3, 2, 2>(false, true));
//@ props=C03,C08 tier=thorough cfg=nobatch inst="VModel<Rgb565,3,2>, draw_iter without batching" bounds="0..=3 in-bounds pixels; default cfg" timeout=3000 mem=12
h!(c03_bb_3n, 5, draw_iter_h::<3, 2, 3>(false, true));
//@ props=C03,C08,C20 tier=thorough required=no cfg=smallcap inst="VModel<Rgb565,3,2>, draw_iter, capacities 4/8" bounds="0..=3 in-bounds pixels; default cfg" timeout=7200 mem=30
h!(c03_bb_3, 5, draw_iter_h::<3, 2, 3>(false, true));

/// C20 black-box: a run of two horizontally adjacent in-bounds pixels, supplied left to right
/// by an array iterator (exact size_hint), is one burst.
#[kani::proof]
#[kani::unwind(4)]
//@ props=C20,C03 tier=thorough required=no cfg=smallcap inst="VModel<Rgb565,240,320>, draw_iter of a 2-pixel run from an array (capacities 4/8)" bounds="run start anywhere in a 2x2 corner, symbolic colours, default cfg" timeout=5400 mem=30
fn c20_two_pixel_run() {
    let probe = any_probe::<VModel<Rgb565, 240, 320>>();
    let mut world = World::new(NEVER);
    let cfg = Cfg { w: 240, h: 320, ox: 0, oy: 0, o: mipidsi::options::Orientation::new() };
    let Some(mut d) = build::<_, u8, 0, false>(VModel::<Rgb565, 240, 320>::new(), &mut world, probe, &cfg) else {
        return;
    };
    let (x, y): (u8, u8) = (kani::any(), kani::any());
    kani::assume(x < 2 && y < 2);
    let (c0, c1) = (<Rgb565 as Wire>::any(), <Rgb565 as Wire>::any());
    let px = [Pixel(Point::new(x as i32, y as i32), c0), Pixel(Point::new(x as i32 + 1, y as i32), c1)];
    d.draw_iter(px).unwrap();
    let (ctl, _, _) = d.release();
    let c = &ctl.c;
    assert_framing(c);
    assert!(c.pixels == 2, "[C03] both pixels are sent");
    if cfg!(feature = "batch") {
        assert!(c.ramwr_count == 1 && c.caset_count == 1, "[C20] two adjacent same-row pixels supplied left to right are one burst");
    }
    if probe == (x as u16, y as u16) {
        assert!(c.probe_writes == 1 && c.probe_val == c0.wire(), "[C03] first pixel of the run");
    } else if probe == (x as u16 + 1, y as u16) {
        assert!(c.probe_writes == 1 && c.probe_val == c1.wire(), "[C03] second pixel of the run");
    } else {
        assert!(c.probe_writes == 0, "[C03] nothing else");
    }
    kani::cover!(probe == (x as u16 + 1, y as u16), "cover: second pixel hit");
}
