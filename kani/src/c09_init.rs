//! C09: Builder::init accepts exactly the windows that fit and rejects before touching hardware.
use crate::env::*;
use crate::oracle::*;
use crate::sym::*;
use embedded_graphics_core::pixelcolor::Rgb565;
use mipidsi::{models::Model, Builder, ConfigurationError, InitError};

fn check<DI, RST, E1: core::fmt::Debug, E2: core::fmt::Debug>(
    r: &Result<mipidsi::Display<DI, impl Model<ColorFormat = Rgb565>, RST>, InitError<E1, E2>>,
    world: &World,
    fw: u16,
    fh: u16,
    w: u16,
    h: u16,
    ox: u16,
    oy: u16,
) where
    DI: mipidsi::interface::Interface<Word = u8>,
    RST: embedded_hal::digital::OutputPin,
{
    let ok = init_ok(fw, fh, w, h, ox, oy);
    match r {
        Ok(_) => {
            assert!(ok, "[C09] init succeeded on a window that does not fit");
            kani::cover!(ox > 0 && oy > 0 || fw == 1 || fh == 1, "cover: accepted");
        }
        Err(InitError::InvalidConfiguration(e)) => {
            assert!(!ok, "[C09] init rejected a window that fits");
            if size_bad(fw, fh, w, h) {
                assert!(matches!(e, ConfigurationError::InvalidDisplaySize), "[C09] zero/oversize must be InvalidDisplaySize");
            } else {
                assert!(matches!(e, ConfigurationError::InvalidDisplayOffset), "[C09] otherwise InvalidDisplayOffset");
            }
            assert!(world.ops == 0 && world.bus_ops == 0, "[C09] rejected before touching the bus");
            assert!(world.rst_calls == 0, "[C09] rejected before touching the reset pin");
            assert!(world.delay_calls == 0 && world.time_ns == 0, "[C09] rejected before touching the delay source");
            kani::cover!(!size_bad(fw, fh, w, h), "cover: offset rejected");
            kani::cover!(size_bad(fw, fh, w, h), "cover: size rejected");
        }
        Err(_) => assert!(false, "[C09][C12] interface/reset error without a fault"),
    }
}

fn init_pin_h<const FW: u16, const FH: u16>() {
    let mut world = World::new(NEVER);
    let wp: *mut World = &mut world;
    let (w, h, ox, oy): (u16, u16, u16, u16) = (kani::any(), kani::any(), kani::any(), kani::any());
    let ctl = Ctl::<u8, 0, false>::new(wp, FW, FH, (0, 0));
    let r = Builder::new(VModel::<Rgb565, FW, FH>::new(), ctl)
        .display_size(w, h)
        .display_offset(ox, oy)
        .orientation(any_orientation())
        .reset_pin(Rst(wp))
        .init(&mut Clock(wp));
    check(&r, &world, FW, FH, w, h, ox, oy);
    if r.is_ok() {
        assert!(world.rst_calls == 2 && world.rst_final_high, "[C17] reset pin pulsed and left high");
    }
}

fn init_nopin_h<const FW: u16, const FH: u16>() {
    let mut world = World::new(NEVER);
    let wp: *mut World = &mut world;
    let (w, h, ox, oy): (u16, u16, u16, u16) = (kani::any(), kani::any(), kani::any(), kani::any());
    let ctl = Ctl::<u8, 0, false>::new(wp, FW, FH, (0, 0));
    let r = Builder::new(VModel::<Rgb565, FW, FH>::new(), ctl)
        .display_size(w, h)
        .display_offset(ox, oy)
        .orientation(any_orientation())
        .init(&mut Clock(wp));
    check(&r, &world, FW, FH, w, h, ox, oy);
    if let Ok(d) = r {
        let (ctl, _, _) = d.release();
        assert!(ctl.c.swreset == 1 && ctl.c.first_cmd == 0x01, "[C17] software reset first, once");
    }
}

/// built-in model, real init sequence, with pin
fn init_builtin_h<M: Model<ColorFormat = Rgb565>>(m: M) {
    let mut world = World::new(NEVER);
    let wp: *mut World = &mut world;
    let (fw, fh) = M::FRAMEBUFFER_SIZE;
    let (w, h, ox, oy): (u16, u16, u16, u16) = (kani::any(), kani::any(), kani::any(), kani::any());
    let ctl = Ctl::<u8, 0, false>::new(wp, fw, fh, (0, 0));
    let r = Builder::new(m, ctl)
        .display_size(w, h)
        .display_offset(ox, oy)
        .reset_pin(Rst(wp))
        .init(&mut Clock(wp));
    check(&r, &world, fw, fh, w, h, ox, oy);
}

macro_rules! h {
    ($name:ident, $unw:expr, $body:expr) => {
        #[kani::proof]
        #[kani::unwind($unw)]
        fn $name() {
            $body
        }
    };
}
const B: &str = "";
//@ props=C09,C17 inst="VModel<1,1> with reset pin" bounds="loop-free: all (w,h,ox,oy) in u16^4, 8 orientations" timeout=300 mem=3
h!(c09_pin_1x1, 3, init_pin_h::<1, 1>());
//@ props=C09,C17 inst="VModel<65535,65535> with reset pin" bounds="same" timeout=300 mem=3
h!(c09_pin_max, 3, init_pin_h::<65535, 65535>());
//@ props=C09,C17 inst="VModel<240,320> with reset pin" bounds="same" timeout=300 mem=3
h!(c09_pin_240x320, 3, init_pin_h::<240, 320>());
//@ props=C09 tier=thorough inst="VModel<1,65535> with reset pin" bounds="same" timeout=300 mem=3
h!(c09_pin_1xmax, 3, init_pin_h::<1, 65535>());
//@ props=C09 tier=thorough inst="VModel<65535,1> with reset pin" bounds="same" timeout=300 mem=3
h!(c09_pin_maxx1, 3, init_pin_h::<65535, 1>());
//@ props=C09 tier=thorough inst="VModel<3,2> with reset pin" bounds="same" timeout=300 mem=3
h!(c09_pin_3x2, 3, init_pin_h::<3, 2>());
//@ props=C09 tier=thorough inst="VModel<320,480> with reset pin" bounds="same" timeout=300 mem=3
h!(c09_pin_320x480, 3, init_pin_h::<320, 480>());
//@ props=C09 tier=thorough inst="VModel<132,162> with reset pin" bounds="same" timeout=300 mem=3
h!(c09_pin_132x162, 3, init_pin_h::<132, 162>());
//@ props=C09 tier=thorough inst="VModel<240,536> with reset pin" bounds="same" timeout=300 mem=3
h!(c09_pin_240x536, 3, init_pin_h::<240, 536>());
//@ props=C09,C17 inst="VModel<1,1> without reset pin (hook H1)" bounds="same" timeout=300 mem=3
h!(c09_nopin_1x1, 3, init_nopin_h::<1, 1>());
//@ props=C09,C17 inst="VModel<65535,65535> without reset pin (hook H1)" bounds="same" timeout=300 mem=3
h!(c09_nopin_max, 3, init_nopin_h::<65535, 65535>());
//@ props=C09,C17 inst="VModel<320,240> without reset pin (hook H1)" bounds="same" timeout=300 mem=3
h!(c09_nopin_320x240, 3, init_nopin_h::<320, 240>());
//@ props=C09 tier=thorough inst="VModel<128,160> without reset pin" bounds="same" timeout=300 mem=3
h!(c09_nopin_128x160, 3, init_nopin_h::<128, 160>());
//@ props=C09 tier=thorough inst="VModel<65535,1> without reset pin" bounds="same" timeout=300 mem=3
h!(c09_nopin_maxx1, 3, init_nopin_h::<65535, 1>());
//@ props=C09 pick=c09builtin:1 inst="ST7789 (240x320), real init sequence" bounds="all (w,h,ox,oy) in u16^4; unwind 20" timeout=400 mem=4
h!(c09_builtin_st7789, 20, init_builtin_h(mipidsi::models::ST7789));
//@ props=C09 pick=c09builtin:1 inst="ST7735s (132x162), real init sequence" bounds="same" timeout=400 mem=4
h!(c09_builtin_st7735s, 20, init_builtin_h(mipidsi::models::ST7735s));
//@ props=C09 pick=c09builtin:1 inst="RM67162 (240x536), real init sequence" bounds="same" timeout=400 mem=4
h!(c09_builtin_rm67162, 20, init_builtin_h(mipidsi::models::RM67162));
//@ props=C09 pick=c09builtin:1 inst="ILI9342CRgb565 (320x240), real init sequence" bounds="same" timeout=400 mem=4
h!(c09_builtin_ili9342c, 20, init_builtin_h(mipidsi::models::ILI9342CRgb565));
