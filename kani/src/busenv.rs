//! Pin-level / byte-level environment below SpiInterface and ParallelInterface.
use crate::env::{E, E_BUS, E_DC, E_SPI, E_WR};
use embedded_hal::digital::{ErrorType as DErr, OutputPin};
use embedded_hal::spi::{ErrorType as SErr, Operation, SpiDevice};

/// SPI side: byte stream with the DC level at the moment each byte is clocked out,
/// one symbolic probe index, transaction budget, operation-level fault injection.
pub struct SpiWorld {
    pub ops: u32,
    pub fail_at: u32,
    pub failed: bool,
    pub failed_kind: u8,
    pub ops_after_fail: u32,
    pub dc_high: bool,
    pub total: u32,
    pub probe_idx: u32,
    pub probe_hit: bool,
    pub probe_byte: u8,
    pub probe_dc: bool,
    pub dc_low_bytes: u32,
    pub transactions: u32,
    pub budget: u32,
    pub non_write_ops: u32,
    // reset pin sharing the same operation counter
    pub rst_calls: u32,
    pub rst_is_low: bool,
    pub rst_final_high: bool,
    pub spi_while_rst_low: u32,
    pub spi_before_rst: u32,
}
impl SpiWorld {
    pub fn new(fail_at: u32, probe_idx: u32, budget: u32, dc_high: bool) -> Self {
        SpiWorld {
            ops: 0,
            fail_at,
            failed: false,
            failed_kind: 0,
            ops_after_fail: 0,
            dc_high,
            total: 0,
            probe_idx,
            probe_hit: false,
            probe_byte: 0,
            probe_dc: false,
            dc_low_bytes: 0,
            transactions: 0,
            budget,
            non_write_ops: 0,
            rst_calls: 0,
            rst_is_low: false,
            rst_final_high: false,
            spi_while_rst_low: 0,
            spi_before_rst: 0,
        }
    }
    #[inline(always)]
    fn op(&mut self, kind: u8) -> Result<(), E> {
        if self.failed {
            self.ops_after_fail += 1;
        }
        let k = self.ops;
        self.ops += 1;
        if k == self.fail_at {
            self.failed = true;
            self.failed_kind = kind;
            Err(E(kind))
        } else {
            Ok(())
        }
    }
}
pub struct SpiDev(pub *mut SpiWorld);
impl SErr for SpiDev {
    type Error = E;
}
impl SpiDevice for SpiDev {
    fn transaction(&mut self, operations: &mut [Operation<'_, u8>]) -> Result<(), E> {
        let w = unsafe { &mut *self.0 };
        w.transactions += 1;
        if w.rst_is_low {
            w.spi_while_rst_low += 1;
        }
        if w.rst_calls == 0 {
            w.spi_before_rst += 1;
        }
        assert!(w.transactions <= w.budget, "[C06][C20] SPI transaction budget exceeded (non-termination or per-pixel flushing)");
        w.op(E_SPI)?;
        for op in operations {
            if let Operation::Write(buf) = op {
                for b in buf.iter() {
                    if w.total == w.probe_idx {
                        w.probe_hit = true;
                        w.probe_byte = *b;
                        w.probe_dc = w.dc_high;
                    }
                    if !w.dc_high {
                        w.dc_low_bytes += 1;
                    }
                    w.total += 1;
                }
            } else {
                w.non_write_ops += 1;
            }
        }
        Ok(())
    }
}
pub struct SpiRst(pub *mut SpiWorld);
impl DErr for SpiRst {
    type Error = E;
}
impl OutputPin for SpiRst {
    fn set_low(&mut self) -> Result<(), E> {
        let w = unsafe { &mut *self.0 };
        w.rst_calls += 1;
        w.op(crate::env::E_RST)?;
        w.rst_is_low = true;
        w.rst_final_high = false;
        Ok(())
    }
    fn set_high(&mut self) -> Result<(), E> {
        let w = unsafe { &mut *self.0 };
        w.rst_calls += 1;
        w.op(crate::env::E_RST)?;
        w.rst_is_low = false;
        w.rst_final_high = true;
        Ok(())
    }
}
pub struct SpiDc(pub *mut SpiWorld);
impl DErr for SpiDc {
    type Error = E;
}
impl OutputPin for SpiDc {
    fn set_low(&mut self) -> Result<(), E> {
        let w = unsafe { &mut *self.0 };
        w.op(E_DC)?;
        w.dc_high = false;
        Ok(())
    }
    fn set_high(&mut self) -> Result<(), E> {
        let w = unsafe { &mut *self.0 };
        w.op(E_DC)?;
        w.dc_high = true;
        Ok(())
    }
}

/// Parallel side: data pin levels, DC, WR; a word is latched at each rising edge of WR.
pub struct ParWorld {
    pub levels: u16,
    pub dc: bool,
    pub wr: bool,
    pub ops: u32,
    /// bit k set = operation k fails (arbitrary fault pattern), only the first 64 operations
    pub fail_mask: u64,
    /// single failing operation index (NEVER = none)
    pub fail_at: u32,
    pub failed: bool,
    pub failed_kind: u8,
    pub ops_after_fail: u32,
    pub edges: u32,
    pub probe_idx: u32,
    pub probe_hit: bool,
    pub probe_word: u16,
    pub probe_dc: bool,
    pub dc_low_edges: u32,
}
impl ParWorld {
    pub fn new(levels: u16, dc: bool, probe_idx: u32) -> Self {
        ParWorld {
            levels,
            dc,
            wr: true,
            ops: 0,
            fail_mask: 0,
            fail_at: u32::MAX,
            failed: false,
            failed_kind: 0,
            ops_after_fail: 0,
            edges: 0,
            probe_idx,
            probe_hit: false,
            probe_word: 0,
            probe_dc: false,
            dc_low_edges: 0,
        }
    }
    #[inline(always)]
    fn op(&mut self, kind: u8) -> Result<(), E> {
        if self.failed {
            self.ops_after_fail += 1;
        }
        let k = self.ops;
        self.ops += 1;
        if k == self.fail_at || (k < 64 && (self.fail_mask >> k) & 1 == 1) {
            self.failed = true;
            self.failed_kind = kind;
            Err(E(kind))
        } else {
            Ok(())
        }
    }
}
pub struct DPin(pub *mut ParWorld, pub u8);
impl DErr for DPin {
    type Error = E;
}
impl OutputPin for DPin {
    fn set_low(&mut self) -> Result<(), E> {
        let w = unsafe { &mut *self.0 };
        w.op(E_BUS)?;
        w.levels &= !(1u16 << self.1);
        Ok(())
    }
    fn set_high(&mut self) -> Result<(), E> {
        let w = unsafe { &mut *self.0 };
        w.op(E_BUS)?;
        w.levels |= 1u16 << self.1;
        Ok(())
    }
}
pub struct ParDc(pub *mut ParWorld);
impl DErr for ParDc {
    type Error = E;
}
impl OutputPin for ParDc {
    fn set_low(&mut self) -> Result<(), E> {
        let w = unsafe { &mut *self.0 };
        w.op(E_DC)?;
        w.dc = false;
        Ok(())
    }
    fn set_high(&mut self) -> Result<(), E> {
        let w = unsafe { &mut *self.0 };
        w.op(E_DC)?;
        w.dc = true;
        Ok(())
    }
}
pub struct ParWr(pub *mut ParWorld);
impl DErr for ParWr {
    type Error = E;
}
impl OutputPin for ParWr {
    fn set_low(&mut self) -> Result<(), E> {
        let w = unsafe { &mut *self.0 };
        w.op(E_WR)?;
        w.wr = false;
        Ok(())
    }
    fn set_high(&mut self) -> Result<(), E> {
        let w = unsafe { &mut *self.0 };
        w.op(E_WR)?;
        if !w.wr {
            if w.edges == w.probe_idx {
                w.probe_hit = true;
                w.probe_word = w.levels;
                w.probe_dc = w.dc;
            }
            if !w.dc {
                w.dc_low_edges += 1;
            }
            w.edges += 1;
        }
        w.wr = true;
        Ok(())
    }
}

pub type Bus8 = mipidsi::interface::Generic8BitBus<DPin, DPin, DPin, DPin, DPin, DPin, DPin, DPin>;
pub type Bus16 = mipidsi::interface::Generic16BitBus<
    DPin, DPin, DPin, DPin, DPin, DPin, DPin, DPin, DPin, DPin, DPin, DPin, DPin, DPin, DPin, DPin,
>;
pub fn bus8(w: *mut ParWorld) -> Bus8 {
    mipidsi::interface::Generic8BitBus::new((
        DPin(w, 0), DPin(w, 1), DPin(w, 2), DPin(w, 3), DPin(w, 4), DPin(w, 5), DPin(w, 6), DPin(w, 7),
    ))
}
pub fn bus16(w: *mut ParWorld) -> Bus16 {
    mipidsi::interface::Generic16BitBus::new((
        DPin(w, 0), DPin(w, 1), DPin(w, 2), DPin(w, 3), DPin(w, 4), DPin(w, 5), DPin(w, 6), DPin(w, 7),
        DPin(w, 8), DPin(w, 9), DPin(w, 10), DPin(w, 11), DPin(w, 12), DPin(w, 13), DPin(w, 14), DPin(w, 15),
    ))
}
