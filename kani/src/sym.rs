//! Symbolic value constructors and the configurable external model.

use core::marker::PhantomData;
use embedded_graphics_core::pixelcolor::RgbColor;
use embedded_hal::delay::DelayNs;
use mipidsi::{
    dcs::{InterfaceExt, SetAddressMode},
    interface::Interface,
    models::{Model, ModelInitError},
    options::*,
};

pub fn any_rotation() -> Rotation {
    let r: u8 = kani::any();
    kani::assume(r < 4);
    match r {
        0 => Rotation::Deg0,
        1 => Rotation::Deg90,
        2 => Rotation::Deg180,
        _ => Rotation::Deg270,
    }
}
pub fn any_orientation() -> Orientation {
    Orientation {
        rotation: any_rotation(),
        mirrored: kani::any(),
    }
}
pub fn any_color_order() -> ColorOrder {
    if kani::any() {
        ColorOrder::Rgb
    } else {
        ColorOrder::Bgr
    }
}
pub fn any_inversion() -> ColorInversion {
    if kani::any() {
        ColorInversion::Normal
    } else {
        ColorInversion::Inverted
    }
}
pub fn any_refresh() -> RefreshOrder {
    RefreshOrder::new(
        if kani::any() {
            VerticalRefreshOrder::TopToBottom
        } else {
            VerticalRefreshOrder::BottomToTop
        },
        if kani::any() {
            HorizontalRefreshOrder::LeftToRight
        } else {
            HorizontalRefreshOrder::RightToLeft
        },
    )
}
pub fn any_tearing() -> TearingEffect {
    let r: u8 = kani::any();
    kani::assume(r < 3);
    match r {
        0 => TearingEffect::Off,
        1 => TearingEffect::Vertical,
        _ => TearingEffect::HorizontalAndVertical,
    }
}

/// External model (like tests/external.rs) with a configurable framebuffer size and
/// colour type; init wakes the controller and programs the address mode.
pub struct VModel<C, const FW: u16, const FH: u16>(pub PhantomData<C>);
impl<C, const FW: u16, const FH: u16> VModel<C, FW, FH> {
    pub fn new() -> Self {
        VModel(PhantomData)
    }
}
impl<C: RgbColor, const FW: u16, const FH: u16> Model for VModel<C, FW, FH> {
    type ColorFormat = C;
    const FRAMEBUFFER_SIZE: (u16, u16) = (FW, FH);
    fn init<DELAY: DelayNs, DI: Interface>(
        &mut self,
        di: &mut DI,
        _delay: &mut DELAY,
        options: &ModelOptions,
    ) -> Result<SetAddressMode, ModelInitError<DI::Error>> {
        let madctl = SetAddressMode::from(options);
        di.write_command(mipidsi::dcs::ExitSleepMode)?;
        _delay.delay_us(120_000);
        di.write_command(madctl)?;
        Ok(madctl)
    }
}
