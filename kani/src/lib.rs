//! Kani harness crate for almindor/mipidsi (see /verif/DESIGN.md).
#![allow(dead_code)]
#![allow(clippy::all)]

#[cfg(kani)]
pub mod env;
#[cfg(kani)]
pub mod oracle;
#[cfg(kani)]
pub mod sym;

#[cfg(kani)]
mod c00_oracle;
#[cfg(kani)]
mod c01_placement;
#[cfg(kani)]
mod c09_init;
#[cfg(kani)]
mod c10_orientation;
#[cfg(kani)]
mod c14_madctl;
#[cfg(kani)]
mod c15_algebra;
#[cfg(kani)]
mod c16_scroll;
#[cfg(kani)]
mod c18_dcs;
#[cfg(kani)]
mod c11_model_init;
#[cfg(kani)]
pub mod busenv;
#[cfg(kani)]
mod c05_color;
#[cfg(kani)]
mod c06_spi;
#[cfg(kani)]
mod c07_parallel;
#[cfg(kani)]
mod c03_draw_iter;
#[cfg(kani)]
mod c12_driver;
#[cfg(kani)]
mod c19_test_image;
#[cfg(kani)]
pub mod wire;
#[cfg(kani)]
mod c01_e2e;
