//! Kani harness crate for almindor/mipidsi (see /verif/DESIGN.md).
#![allow(dead_code)]
#![allow(clippy::all)]

/// Kani's `assert!` assumes its condition afterwards (a panic ends the path), so a failing
/// assertion hides every later assertion on the same path - and with it the property tags of
/// the later ones.  `indep! { .. }` runs a group of assertions under a fresh nondeterministic
/// guard: groups are then decided independently of each other.
#[cfg(kani)]
#[macro_export]
macro_rules! indep {
    ($($body:tt)*) => {
        if kani::any::<bool>() {
            $($body)*
        }
    };
}

#[cfg(kani)]
pub mod env;
#[cfg(kani)]
pub mod oracle;
#[cfg(kani)]
pub mod sym;

#[cfg(kani)]
mod c00_oracle;
#[cfg(kani)]
mod c01_placement;
#[cfg(kani)]
mod c09_init;
#[cfg(kani)]
mod c10_orientation;
#[cfg(kani)]
mod c14_madctl;
#[cfg(kani)]
mod c15_algebra;
#[cfg(kani)]
mod c16_scroll;
#[cfg(kani)]
mod c18_dcs;
#[cfg(kani)]
mod c11_model_init;
#[cfg(kani)]
pub mod busenv;
#[cfg(kani)]
mod c05_color;
#[cfg(kani)]
mod c06_spi;
#[cfg(kani)]
mod c07_parallel;
#[cfg(kani)]
mod c03_draw_iter;
#[cfg(kani)]
mod c12_driver;
#[cfg(kani)]
mod c19_test_image;
#[cfg(kani)]
pub mod wire;
#[cfg(kani)]
mod c01_e2e;
