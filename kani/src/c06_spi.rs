//! C06 (+ C20 transaction budget, C12 fault reporting at transport level): SPI transport.
use crate::busenv::*;
use crate::env::{E, E_DC, E_SPI, NEVER};
use mipidsi::interface::{Interface, SpiError, SpiInterface};

const LMAX: usize = 8;

/// pixel source with a concrete loop counter and a symbolic length
pub struct Src<const N: usize, const P: usize> {
    px: [[u8; N]; P],
    n: usize,
    k: usize,
}
impl<const N: usize, const P: usize> Iterator for Src<N, P> {
    type Item = [u8; N];
    fn next(&mut self) -> Option<[u8; N]> {
        let k = self.k;
        self.k += 1;
        if k < P && k < self.n {
            Some(self.px[k])
        } else {
            None
        }
    }
}

fn budget(bytes: usize, len: usize, n: usize) -> u32 {
    let usable = (len / n) * n;
    (bytes / usable) as u32 + 1
}

/// send_command with up to 17 parameter bytes: [opcode][params], DC low exactly for the opcode
#[kani::proof]
#[kani::unwind(20)]
//@ props=C06,C08 inst="SpiInterface::send_command" bounds="any opcode, 0..=17 parameter bytes with symbolic content, buffer of 4 bytes, symbolic initial DC level" timeout=400 mem=4
fn c06_send_command() {
    let args: [u8; 17] = kani::any();
    let na: usize = kani::any();
    kani::assume(na <= 17);
    let cmd: u8 = kani::any();
    let mut sw = SpiWorld::new(NEVER, kani::any(), 2, kani::any());
    let wp: *mut SpiWorld = &mut sw;
    let mut buf = [0u8; 4];
    let mut di = SpiInterface::new(SpiDev(wp), SpiDc(wp), &mut buf);
    di.send_command(cmd, &args[..na]).unwrap();
    assert!(sw.total as usize == 1 + na, "[C06][C08] exactly opcode + parameter bytes");
    assert!(sw.dc_low_bytes == 1 && sw.dc_high, "[C06] DC low for exactly the instruction byte, high afterwards");
    assert!(sw.non_write_ops == 0, "[C06] only writes");
    if sw.probe_hit {
        let j = sw.probe_idx as usize;
        if j == 0 {
            assert!(sw.probe_byte == cmd && !sw.probe_dc, "[C06] first byte is the instruction with DC low");
        } else {
            assert!(sw.probe_byte == args[j - 1] && sw.probe_dc, "[C06] parameter byte in order with DC high");
        }
    } else {
        assert!(sw.probe_idx as usize >= 1 + na, "[C06] no byte lost");
    }
    kani::cover!(na == 17 && sw.probe_hit && sw.probe_idx == 17, "cover: last of 17 parameters");
    kani::cover!(na == 0, "cover: no parameters");
}

/// command (<= 2 parameters) followed by a pixel stream
fn pixels_h<const N: usize, const P: usize>() {
    pixels_l_h::<N, P, LMAX>()
}

fn pixels_l_h<const N: usize, const P: usize, const LMAX: usize>() {
    let backing: [u8; LMAX] = kani::any();
    let mut backing = backing;
    let len: usize = kani::any();
    kani::assume(len >= N && len <= LMAX);
    let n: usize = kani::any();
    kani::assume(n <= P);
    let px: [[u8; N]; P] = kani::any();
    let bytes = n * N;
    let mut sw = SpiWorld::new(NEVER, kani::any(), 2 + budget(bytes, len, N), kani::any());
    let wp: *mut SpiWorld = &mut sw;
    let mut di = SpiInterface::new(SpiDev(wp), SpiDc(wp), &mut backing[..len]);
    let cmd: u8 = kani::any();
    let arg: u8 = kani::any();
    let na: usize = kani::any();
    kani::assume(na <= 1);
    di.send_command(cmd, &[arg][..na]).unwrap();
    let t0 = sw.transactions;
    di.send_pixels(Src::<N, P> { px, n, k: 0 }).unwrap();
    assert!(sw.transactions - t0 <= budget(bytes, len, N), "[C06][C20] at most floor(bytes/usable)+1 transactions per burst");
    assert!(sw.total as usize == 1 + na + bytes, "[C06][C01][C04] exactly the encoded pixel bytes: nothing lost, duplicated or padded");
    assert!(sw.dc_low_bytes == 1 && sw.dc_high, "[C06] DC high for every parameter and pixel byte");
    if sw.probe_hit {
        let j = sw.probe_idx as usize;
        if j == 0 {
            assert!(sw.probe_byte == cmd && !sw.probe_dc, "[C06] instruction byte");
        } else if j <= na {
            assert!(sw.probe_byte == arg && sw.probe_dc, "[C06] parameter byte");
        } else {
            let i = j - 1 - na;
            // i / N and i % N without division: search
            let mut q = 0;
            let mut r = i;
            let mut t = 0;
            while t < P {
                if r >= N {
                    r -= N;
                    q += 1;
                }
                t += 1;
            }
            assert!(sw.probe_byte == px[q][r] && sw.probe_dc, "[C06][C01][C04] pixel byte in order, no stale buffer content");
        }
    }
    kani::cover!(n == P && len == LMAX - 1 && sw.probe_hit && sw.probe_idx as usize == bytes, "cover: full stream, odd buffer");
    kani::cover!(n * N == (len / N) * N && n > 0, "cover: exact multiple of the buffer capacity");
}

/// command followed by a repeated pixel
fn repeated_h<const N: usize>(cmax: u32) {
    let backing: [u8; LMAX] = kani::any();
    let mut backing = backing;
    let len: usize = kani::any();
    kani::assume(len >= N && len <= LMAX);
    let count: u32 = kani::any();
    kani::assume(count <= cmax);
    let p: [u8; N] = kani::any();
    let bytes = count as usize * N;
    let mut sw = SpiWorld::new(NEVER, kani::any(), 2 + budget(bytes, len, N), kani::any());
    let wp: *mut SpiWorld = &mut sw;
    let mut di = SpiInterface::new(SpiDev(wp), SpiDc(wp), &mut backing[..len]);
    let cmd: u8 = kani::any();
    di.send_command(cmd, &[]).unwrap();
    let t0 = sw.transactions;
    di.send_repeated_pixel(p, count).unwrap();
    assert!(sw.transactions - t0 <= budget(bytes, len, N), "[C06][C20] at most floor(bytes/usable)+1 transactions per burst");
    assert!(sw.total as usize == 1 + bytes, "[C06][C05][C19] exactly count pixels");
    assert!(sw.dc_low_bytes == 1 && sw.dc_high, "[C06] DC high for every pixel byte");
    if sw.probe_hit && sw.probe_idx >= 1 {
        let i = sw.probe_idx as usize - 1;
        let r = i % N; // constant divisor
        assert!(sw.probe_byte == p[r] && sw.probe_dc, "[C06][C05][C19][C01] repeated pixel byte, no stale buffer content");
    }
    kani::cover!(count == cmax && len == LMAX - 1, "cover: max count, odd buffer");
    kani::cover!(count == 0, "cover: zero count");
}

/// transport-level fault: the failing operation is reported under the right variant and
/// nothing follows it
fn fault_h<const N: usize>() {
    let mut backing = [0u8; LMAX];
    let len: usize = kani::any();
    kani::assume(len >= N && len <= LMAX);
    let mut sw = SpiWorld::new(kani::any(), 0, 40, true);
    let wp: *mut SpiWorld = &mut sw;
    let mut di = SpiInterface::new(SpiDev(wp), SpiDc(wp), &mut backing[..len]);
    let args: [u8; 4] = kani::any();
    let na: usize = kani::any();
    kani::assume(na <= 4);
    let which: u8 = kani::any();
    let p: [u8; N] = kani::any();
    let r = match which {
        0 => di.send_command(kani::any(), &args[..na]),
        1 => {
            let n: usize = kani::any();
            kani::assume(n <= 4);
            di.send_pixels(Src::<N, 4> { px: [p; 4], n, k: 0 })
        }
        _ => {
            let c: u32 = kani::any();
            kani::assume(c >= 1 && c <= 4);
            di.send_repeated_pixel(p, c)
        }
    };
    assert!(sw.ops_after_fail == 0, "[C12] no pin or bus operation after the failing one");
    match r {
        Ok(()) => assert!(!sw.failed, "[C12] a failed operation must be reported"),
        Err(SpiError::Spi(e)) => assert!(sw.failed && sw.failed_kind == E_SPI && e == E(E_SPI), "[C12] SPI failure reported as SpiError::Spi"),
        Err(SpiError::Dc(e)) => assert!(sw.failed && sw.failed_kind == E_DC && e == E(E_DC), "[C12] DC failure reported as SpiError::Dc"),
    }
    kani::cover!(sw.failed && sw.failed_kind == E_DC && which == 0, "cover: DC fault in a command");
    kani::cover!(sw.failed && sw.failed_kind == E_SPI && which == 1 && sw.ops > 1, "cover: SPI fault in a later chunk");
}

macro_rules! h {
    ($name:ident, $unw:expr, $body:expr) => {
        #[kani::proof]
        #[kani::unwind($unw)]
        fn $name() {
            $body
        }
    };
}
//@ props=C06,C20,C01,C04 inst="SpiInterface::send_pixels::<2> (Rgb565)" bounds="buffer length 2..=8 with symbolic prior content, 0..=6 pixels, symbolic byte index" timeout=900 mem=6
h!(c06_pixels_n2, 10, pixels_h::<2, 6>());
//@ props=C06,C20,C01,C04 inst="SpiInterface::send_pixels::<3> (Rgb666)" bounds="buffer length 3..=8, 0..=6 pixels" timeout=900 mem=6
h!(c06_pixels_n3, 10, pixels_h::<3, 6>());
//@ props=C06,C20,C05,C01 inst="SpiInterface::send_repeated_pixel::<2>" bounds="buffer length 2..=8, count 0..=6" timeout=600 mem=4
h!(c06_repeated_n2, 10, repeated_h::<2>(6));
//@ props=C06,C20,C05,C19 inst="SpiInterface::send_repeated_pixel::<3>" bounds="buffer length 3..=8, count 0..=6" timeout=600 mem=4
h!(c06_repeated_n3, 10, repeated_h::<3>(6));
//@ props=C12 inst="SpiInterface, N=2: send_command / send_pixels / send_repeated_pixel" bounds="symbolic index of the failing low-level operation; args <= 4, <= 4 pixels, buffer 2..=8" timeout=900 mem=8
h!(c12_spi_fault_n2, 10, fault_h::<2>());
//@ props=C12 inst="SpiInterface, N=3" bounds="same" timeout=900 mem=8
h!(c12_spi_fault_n3, 10, fault_h::<3>());
//@ props=C06,C20 tier=thorough required=no inst="SpiInterface::send_pixels::<2>" bounds="buffer length 2..=16, 0..=10 pixels" timeout=5400 mem=24
h!(c06_pixels_n2_big, 18, pixels_l_h::<2, 10, 16>());
//@ props=C06,C20 tier=thorough required=no inst="SpiInterface::send_pixels::<3>" bounds="buffer length 3..=16, 0..=10 pixels" timeout=5400 mem=24
h!(c06_pixels_n3_big, 18, pixels_l_h::<3, 10, 16>());
//@ props=C06,C20 tier=thorough inst="SpiInterface::send_repeated_pixel::<3>" bounds="buffer length 3..=8, count 0..=12" timeout=3600 mem=12
h!(c06_repeated_n3_12, 16, repeated_h::<3>(12));
