//! Byte-level / pin-level twin of the controller model: the real SpiInterface and
//! ParallelInterface drive `Core` through what appears on the wires.
use crate::env::*;
use embedded_hal::digital::{ErrorType as DErr, OutputPin};
use embedded_hal::spi::{ErrorType as SErr, Operation, SpiDevice};

pub struct WireWorld {
    pub world: World,
    pub core: Core,
    pub dc_high: bool,
    // parallel pins
    pub levels: u16,
    pub wr: bool,
    // command assembly
    pub have_cmd: bool,
    pub cmd: u8,
    pub params: [u8; 8],
    pub np: usize,
    pub flushed: bool,
    // pixel assembly
    pub words_per_pixel: usize,
    pub word_bits: u32,
    pub acc: u32,
    pub nacc: usize,
    pub f_partial: bool,
    pub spi_transactions: u32,
    pub failed_kind: u8,
}
impl WireWorld {
    pub fn new(fail_at: u32, fw: u16, fh: u16, probe: (u16, u16), words_per_pixel: usize, word_bits: u32) -> Self {
        WireWorld {
            world: World::new(fail_at),
            core: Core::new(fw, fh, probe),
            dc_high: true,
            levels: 0,
            wr: true,
            have_cmd: false,
            cmd: 0,
            params: [0; 8],
            np: 0,
            flushed: true,
            words_per_pixel,
            word_bits,
            acc: 0,
            nacc: 0,
            f_partial: false,
            spi_transactions: 0,
            failed_kind: 0,
        }
    }
    #[inline(always)]
    fn op(&mut self, kind: u8) -> Result<(), E> {
        if self.world.op() {
            Ok(())
        } else {
            self.failed_kind = kind;
            Err(E(kind))
        }
    }
    fn flush(&mut self) {
        if self.have_cmd && !self.flushed {
            let n = if self.np > 8 { 8 } else { self.np };
            let now = self.world.time_ns;
            let (cmd, params) = (self.cmd, self.params);
            self.core.command(cmd, &params[..n], now);
            if self.np > 8 {
                // longer than any MIPI user command we decode: vendor register write
            }
            self.flushed = true;
        }
    }
    /// one word on the wire with the DC level in force
    pub fn word(&mut self, w: u16, dc_high: bool) {
        // only `word_bits` data lines exist on this bus
        let w = if self.word_bits < 16 { w & ((1u16 << self.word_bits) - 1) } else { w };
        self.world.bus_op();
        if !dc_high {
            self.flush();
            if self.nacc != 0 {
                self.f_partial = true;
            }
            self.have_cmd = true;
            self.cmd = w as u8;
            self.np = 0;
            self.nacc = 0;
            self.acc = 0;
            self.flushed = false;
        } else if self.have_cmd && (self.cmd == 0x2C || self.cmd == 0x3C) {
            if !self.flushed {
                self.flush();
            }
            if self.nacc == 0 && self.core.burst_px == 0 {
                self.core.pixel_call();
            }
            self.acc = (self.acc << (self.word_bits % 32)) | w as u32;
            self.nacc += 1;
            if self.nacc == self.words_per_pixel {
                let v = self.acc;
                self.core.write_px(v);
                self.acc = 0;
                self.nacc = 0;
            }
        } else if self.have_cmd {
            if self.np < 8 {
                self.params[self.np] = w as u8;
            }
            self.np += 1;
        }
    }
    /// end of the observed traffic
    pub fn finish(&mut self) {
        self.flush();
        if self.nacc != 0 {
            self.f_partial = true;
        }
    }
}

pub struct WSpi(pub *mut WireWorld);
impl SErr for WSpi {
    type Error = E;
}
impl SpiDevice for WSpi {
    fn transaction(&mut self, operations: &mut [Operation<'_, u8>]) -> Result<(), E> {
        let w = unsafe { &mut *self.0 };
        w.spi_transactions += 1;
        w.op(E_SPI)?;
        for op in operations {
            if let Operation::Write(buf) = op {
                for b in buf.iter() {
                    let dc = w.dc_high;
                    w.word(*b as u16, dc);
                }
            }
        }
        Ok(())
    }
}
pub struct WDc(pub *mut WireWorld);
impl DErr for WDc {
    type Error = E;
}
impl OutputPin for WDc {
    fn set_low(&mut self) -> Result<(), E> {
        let w = unsafe { &mut *self.0 };
        w.op(E_DC)?;
        w.dc_high = false;
        Ok(())
    }
    fn set_high(&mut self) -> Result<(), E> {
        let w = unsafe { &mut *self.0 };
        w.op(E_DC)?;
        w.dc_high = true;
        Ok(())
    }
}
pub struct WRst(pub *mut WireWorld);
impl DErr for WRst {
    type Error = E;
}
impl OutputPin for WRst {
    fn set_low(&mut self) -> Result<(), E> {
        let w = unsafe { &mut *self.0 };
        w.world.rst_calls += 1;
        w.op(E_RST)?;
        w.world.rst_is_low = true;
        w.world.rst_low_seen = true;
        w.world.rst_low_t = w.world.time_ns;
        w.world.rst_final_high = false;
        Ok(())
    }
    fn set_high(&mut self) -> Result<(), E> {
        let w = unsafe { &mut *self.0 };
        w.world.rst_calls += 1;
        w.op(E_RST)?;
        w.world.rst_is_low = false;
        w.world.rst_high_seen = true;
        w.world.rst_high_t = w.world.time_ns;
        w.world.rst_final_high = true;
        Ok(())
    }
}
pub struct WClock(pub *mut WireWorld);
impl embedded_hal::delay::DelayNs for WClock {
    fn delay_ns(&mut self, ns: u32) {
        let w = unsafe { &mut *self.0 };
        w.world.delay_calls += 1;
        w.world.time_ns += ns as u64;
    }
}
pub struct WData(pub *mut WireWorld, pub u8);
impl DErr for WData {
    type Error = E;
}
impl OutputPin for WData {
    fn set_low(&mut self) -> Result<(), E> {
        let w = unsafe { &mut *self.0 };
        w.op(E_BUS)?;
        w.levels &= !(1u16 << self.1);
        Ok(())
    }
    fn set_high(&mut self) -> Result<(), E> {
        let w = unsafe { &mut *self.0 };
        w.op(E_BUS)?;
        w.levels |= 1u16 << self.1;
        Ok(())
    }
}
pub struct WWr(pub *mut WireWorld);
impl DErr for WWr {
    type Error = E;
}
impl OutputPin for WWr {
    fn set_low(&mut self) -> Result<(), E> {
        let w = unsafe { &mut *self.0 };
        w.op(E_WR)?;
        w.wr = false;
        Ok(())
    }
    fn set_high(&mut self) -> Result<(), E> {
        let w = unsafe { &mut *self.0 };
        w.op(E_WR)?;
        if !w.wr {
            let (lv, dc) = (w.levels, w.dc_high);
            w.word(lv, dc);
        }
        w.wr = true;
        Ok(())
    }
}
pub type WBus8 = mipidsi::interface::Generic8BitBus<WData, WData, WData, WData, WData, WData, WData, WData>;
pub fn wbus8(w: *mut WireWorld) -> WBus8 {
    mipidsi::interface::Generic8BitBus::new((
        WData(w, 0), WData(w, 1), WData(w, 2), WData(w, 3), WData(w, 4), WData(w, 5), WData(w, 6), WData(w, 7),
    ))
}
