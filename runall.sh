#!/bin/bash
# development aid: run every claimed check at the given tier, one after the other
tier=${1:-quick}; shift
ids=${@:-C01 C02 C03 C04 C05 C06 C07 C08 C09 C10 C11 C12 C13 C14 C15 C16 C17 C18 C19 C20}
for p in $ids; do
  s=$(date +%s)
  ./check $p --tier $tier > out-$p.txt 2>&1; rc=$?
  echo "$p exit=$rc $(( $(date +%s) - s ))s $(tail -1 out-$p.txt)"
done
