// replay for property C16
// harness: c16_v_h1
// module: c16_scroll
// cfg: main
// file: kani/src/c16_scroll.rs
// test: kani_concrete_playback_c16_v_h1_15261214902554821901
// failed: attempt to add with overflow
/// Test generated for harness `c16_scroll::c16_v_h1` 
///
/// Check for `assertion`: "attempt to add with overflow"

#[test]
fn kani_concrete_playback_c16_v_h1_15261214902554821901() {
    let concrete_vals: Vec<Vec<u8>> = vec![
        // 3
        vec![3],
        // 0
        vec![0],
        // 65535
        vec![255, 255],
        // 65535
        vec![255, 255],
    ];
    kani::concrete_playback_run(concrete_vals, c16_v_h1);
}
