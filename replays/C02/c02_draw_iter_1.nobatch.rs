// replay for property C02
// harness: c02_draw_iter_1
// module: c03_draw_iter
// cfg: nobatch
// file: kani/src/c03_draw_iter.rs
// test: kani_concrete_playback_c02_draw_iter_1_5819123223195472270
// failed: "[C02][C03] exactly the in-bounds pixels are sent: none dropped, none duplicated"; "[C08][C02] window end / write outside the controller framebuffer"; attempt to add with overflow
/// Test generated for harness `c03_draw_iter::c02_draw_iter_1` 
///
/// Check for `assertion`: ""[C08][C02] window end / write outside the controller framebuffer""

#[test]
fn kani_concrete_playback_c02_draw_iter_1_5819123223195472270() {
    let concrete_vals: Vec<Vec<u8>> = vec![
        // 2
        vec![2, 0],
        // 1
        vec![1, 0],
        // 1
        vec![1, 0],
        // 1
        vec![1, 0],
        // 0
        vec![0, 0],
        // 0
        vec![0, 0],
        // 1
        vec![1],
        // 0
        vec![0],
        // -268435456
        vec![0, 0, 0, 240],
        // -65535
        vec![1, 0, 255, 255],
        // 1ul
        vec![1, 0, 0, 0, 0, 0, 0, 0],
    ];
    kani::concrete_playback_run(concrete_vals, c02_draw_iter_1);
}
