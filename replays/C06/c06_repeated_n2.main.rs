// replay for property C06
// harness: c06_repeated_n2
// module: c06_spi
// cfg: main
// file: kani/src/c06_spi.rs
// test: kani_concrete_playback_c06_repeated_n2_6185709505544446930
// failed: "[C06][C20] SPI transaction budget exceeded (non-termination or per-pixel flushing)"
/// Test generated for harness `c06_spi::c06_repeated_n2` 
///
/// Check for `assertion`: ""[C06][C20] SPI transaction budget exceeded (non-termination or per-pixel flushing)""

#[test]
fn kani_concrete_playback_c06_repeated_n2_6185709505544446930() {
    let concrete_vals: Vec<Vec<u8>> = vec![
        // 35
        vec![35],
        // 99
        vec![99],
        // 99
        vec![99],
        // 35
        vec![35],
        // 35
        vec![35],
        // 35
        vec![35],
        // 35
        vec![35],
        // 35
        vec![35],
        // 8ul
        vec![8, 0, 0, 0, 0, 0, 0, 0],
        // 0
        vec![0, 0, 0, 0],
        // 67
        vec![67],
        // 67
        vec![67],
        // 1
        vec![1, 0, 0, 0],
        // 1
        vec![1],
        // 255
        vec![255],
    ];
    kani::concrete_playback_run(concrete_vals, c06_repeated_n2);
}
