// replay for property C07
// harness: c07_repeat_count_any
// module: c07_parallel
// cfg: main
// file: kani/src/c07_parallel.rs
// test: kani_concrete_playback_c07_repeat_count_any_4791804849302105860
// failed: attempt to multiply with overflow
/// Test generated for harness `c07_parallel::c07_repeat_count_any` 
///
/// Check for `assertion`: "attempt to multiply with overflow"

#[test]
fn kani_concrete_playback_c07_repeat_count_any_4791804849302105860() {
    let concrete_vals: Vec<Vec<u8>> = vec![
        // 4294967295
        vec![255, 255, 255, 255],
        // 255
        vec![255],
    ];
    kani::concrete_playback_run(concrete_vals, c07_repeat_count_any);
}
