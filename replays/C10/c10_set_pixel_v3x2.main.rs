// replay for property C10
// harness: c10_set_pixel_v3x2
// module: c10_orientation
// cfg: main
// file: kani/src/c10_orientation.rs
// test: kani_concrete_playback_c10_set_pixel_v3x2_18300055131308128431
// failed: "[C10] orientation() reports the last orientation set"
/// Test generated for harness `c10_orientation::c10_set_pixel_v3x2` 
///
/// Check for `assertion`: ""[C10] orientation() reports the last orientation set""

#[test]
fn kani_concrete_playback_c10_set_pixel_v3x2_18300055131308128431() {
    let concrete_vals: Vec<Vec<u8>> = vec![
        // 1
        vec![1, 0],
        // 1
        vec![1, 0],
        // 1
        vec![1, 0],
        // 2
        vec![2, 0],
        // 0
        vec![0, 0],
        // 0
        vec![0, 0],
        // 2
        vec![2],
        // 1
        vec![1],
        // 0
        vec![0],
        // 0
        vec![0],
        // 0
        vec![0],
        // 3
        vec![3],
        // 1
        vec![1],
        // 2
        vec![2],
        // 0
        vec![0],
        // 0
        vec![0],
    ];
    kani::concrete_playback_run(concrete_vals, c10_set_pixel_v3x2);
}
