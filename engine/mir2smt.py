"""E2: nightly MIR dump of /repo -> SMT-LIB2 (bit-vectors) -> z3 4.8.12 / z3 5.1.0 / cvc5 1.0.

Only loop-free integer kernels.  The generic associated const `M::FRAMEBUFFER_SIZE` is an
unevaluated operand in generic MIR, so it becomes a pair of free 16-bit variables and the
claims hold for every framebuffer size.  Anything the encoder does not understand makes the
obligation *inconclusive*; a `sat` answer is a candidate counter-example that is replayed
against the natively compiled crate before it is reported.

The encoding is regenerated from /repo's current sources on every run (nothing is cached).
"""
import itertools, json, os, re, shutil, subprocess, sys, time, random

HERE = os.path.dirname(os.path.abspath(__file__))
VERIF = os.path.dirname(HERE)
REPO = os.environ.get("VERIF_REPO", "/repo")


class Unsupported(Exception):
    pass


# ----------------------------------------------------------------------------- MIR text

def dump_mir(scratch_dir):
    src = os.path.join(scratch_dir, "mir-repo")
    if os.path.exists(src):
        shutil.rmtree(src)
    shutil.copytree(REPO, src, ignore=shutil.ignore_patterns("target", ".git", "examples"))
    env = dict(os.environ)
    env["CARGO_NET_OFFLINE"] = "true"
    env.pop("RUSTFLAGS", None)
    t0 = time.time()
    p = subprocess.run(
        ["cargo", "+nightly", "rustc", "--offline", "--lib", "--manifest-path", os.path.join(src, "Cargo.toml"),
         "--target-dir", os.path.join(scratch_dir, "mir-tgt"), "--",
         "-Zunpretty=mir", "-C", "debug-assertions=off", "-C", "overflow-checks=on"],
        capture_output=True, text=True, env=env, cwd=src)
    if p.returncode != 0 or len(p.stdout) < 1000:
        raise Unsupported("MIR dump failed: " + p.stderr[-400:])
    return p.stdout, round(time.time() - t0, 1), src


class Fn:
    def __init__(self, header, lines):
        self.header = header
        m = re.match(r"fn (.*?)\((.*)\) -> (.*) \{$", header)
        if not m:
            m = re.match(r"fn (.*?)\((.*)\) \{$", header)
            self.ret = "()"
        else:
            self.ret = m.group(3)
        self.name = m.group(1)
        self.paramstr = m.group(2)
        self.params = re.findall(r"(_\d+): ", m.group(2))
        self.types = {}
        for pm in re.finditer(r"(_\d+): ([^,]+(?:<[^>]*>)?[^,]*)", m.group(2)):
            self.types[pm.group(1)] = pm.group(2).strip()
        self.blocks = {}
        cur = None
        for l in lines[1:]:
            s = l.strip()
            mm = re.match(r"let (?:mut )?(_\d+): (.*);$", s)
            if mm:
                self.types[mm.group(1)] = mm.group(2)
                continue
            mm = re.match(r"(bb\d+)( \(cleanup\))?: \{", s)
            if mm:
                cur = mm.group(1)
                self.blocks[cur] = []
                continue
            if s == "}":
                cur = None
                continue
            if cur is not None and s and not s.startswith("//"):
                self.blocks[cur].append(s)


def parse_bodies(text):
    """returns {header: Fn} for runtime MIR (the copies after `// MIR FOR CTFE` are skipped)"""
    fns = {}
    lines = text.split("\n")
    i = 0
    ctfe = False
    while i < len(lines):
        l = lines[i]
        if l.startswith("// MIR FOR CTFE"):
            ctfe = True
        if l.startswith("fn "):
            j = i
            while j < len(lines) and lines[j] != "}":
                j += 1
            if not ctfe and l not in fns:
                fns[l] = Fn(l, lines[i:j + 1])
            ctfe = False
            i = j
        i += 1
    return fns


def parse_source_types(src_root):
    """struct field orders and C-like enum variant indices from the repo's own sources"""
    structs, enums = {}, {}
    for root, _d, files in os.walk(os.path.join(src_root, "src")):
        for f in files:
            if not f.endswith(".rs"):
                continue
            t = open(os.path.join(root, f)).read()
            t = re.sub(r"//[^\n]*", "", t)
            for m in re.finditer(r"\bstruct\s+(\w+)\s*(?:<[^{;(]*>)?\s*(?:where[^{]*)?\{(.*?)\n\}", t, re.S):
                fields = re.findall(r"(?:pub(?:\([a-z]+\))?\s+)?(\w+)\s*:", re.sub(r"#\[[^\]]*\]", "", m.group(2)))
                structs.setdefault(m.group(1), fields)
            for m in re.finditer(r"\bstruct\s+(\w+)\s*;", t):
                structs.setdefault(m.group(1), [])
            for m in re.finditer(r"\bstruct\s+(\w+)\s*\(([^)]*)\)\s*;", t):
                structs.setdefault(m.group(1), ["%d" % i for i in range(len([x for x in m.group(2).split(",") if x.strip()]))])
            for m in re.finditer(r"\benum\s+(\w+)\s*(?:<[^{]*>)?\s*\{(.*?)\n\}", t, re.S):
                body = re.sub(r"#\[[^\]]*\]", "", m.group(2))
                vs = [v.strip().split("(")[0].split("{")[0].split("=")[0].strip() for v in body.split(",")]
                enums.setdefault(m.group(1), [v for v in vs if v])
    enums["Result"] = ["Ok", "Err"]
    enums["Option"] = ["None", "Some"]
    enums["ControlFlow"] = ["Continue", "Break"]
    return structs, enums


# ----------------------------------------------------------------------------- values
WIDTH = {"u8": 8, "u16": 16, "u32": 32, "u64": 64, "usize": 64, "i8": 8, "i16": 16, "i32": 32, "i64": 64, "isize": 64}


def bv(w, t, signed=False):
    return ("bv", w, t, signed)


def cbv(w, n, signed=False):
    return bv(w, "(_ bv%d %d)" % (n % (1 << w), w), signed)


def boolv(t):
    return ("bool", t)


UNIT = ("agg", [])


class Ctx:
    def __init__(self):
        self.decls = []
        self.ctr = itertools.count()

    def fresh(self, w, hint, signed=False):
        n = "%s_%d" % (hint, next(self.ctr))
        self.decls.append("(declare-const %s (_ BitVec %d))" % (n, w))
        return bv(w, n, signed)

    def fresh_bool(self, hint):
        n = "%s_%d" % (hint, next(self.ctr))
        self.decls.append("(declare-const %s Bool)" % n)
        return boolv(n)


class Path:
    def __init__(self, pc=None, events=None):
        self.pc = pc or []
        self.events = events or []

    def fork(self, cond):
        return Path(self.pc + [cond], list(self.events))


# ----------------------------------------------------------------------------- solvers

class Solver:
    """one persistent process, push/pop per query"""

    def __init__(self, name, cmd):
        self.name = name
        self.time = 0.0
        self.queries = 0
        try:
            self.p = subprocess.Popen(cmd, stdin=subprocess.PIPE, stdout=subprocess.PIPE, stderr=subprocess.STDOUT, text=True, bufsize=1)
            self._send("(set-option :print-success false)")
            self._send("(set-logic ALL)")
            self.ok = True
        except Exception:
            self.ok = False

    def _send(self, s):
        self.p.stdin.write(s + "\n")
        self.p.stdin.flush()

    def check(self, decls, asserts, timeout_s=60, get=None):
        """returns 'sat'|'unsat'|'unknown'|'error' (+ model dict if get)"""
        if not self.ok:
            return "error", {}
        t0 = time.time()
        self.queries += 1
        model = {}
        try:
            self._send("(push 1)")
            for d in decls:
                self._send(d)
            for a in asserts:
                self._send("(assert %s)" % a)
            self._send('(echo "<<go>>")')
            self._send("(check-sat)")
            self._send('(echo "<<done>>")')
            res = "error"
            seen_go = False
            deadline = time.time() + timeout_s + 5
            while True:
                line = self.p.stdout.readline()
                if not line:
                    self.ok = False
                    return "error", {}
                line = line.strip().strip('"')
                if line == "<<go>>":
                    seen_go = True
                    continue
                if line == "<<done>>":
                    break
                if "(error" in line or line.startswith("error"):
                    res = "error"
                elif seen_go and line in ("sat", "unsat", "unknown", "timeout"):
                    res = line if line != "timeout" else "unknown"
                if time.time() > deadline:
                    break
            if res == "sat" and get:
                self._send("(get-value (%s))" % " ".join(get))
                self._send('(echo "<<gv>>")')
                buf = ""
                while True:
                    line = self.p.stdout.readline()
                    if not line or line.strip().strip('"') == "<<gv>>":
                        break
                    buf += line
                for mm in re.finditer(r"\(([^\s()]+)\s+(#x[0-9a-fA-F]+|#b[01]+|true|false|\(_ bv(\d+) \d+\))\)", buf):
                    v = mm.group(2)
                    if v.startswith("#x"):
                        model[mm.group(1)] = int(v[2:], 16)
                    elif v.startswith("#b"):
                        model[mm.group(1)] = int(v[2:], 2)
                    elif v in ("true", "false"):
                        model[mm.group(1)] = v == "true"
                    else:
                        model[mm.group(1)] = int(mm.group(3))
            self._send("(pop 1)")
        except Exception:
            self.ok = False
            return "error", {}
        self.time += time.time() - t0
        return res, model

    def close(self):
        try:
            self._send("(exit)")
            self.p.terminate()
        except Exception:
            pass


def make_solvers(timeout_s=60):
    ms = timeout_s * 1000
    return [
        Solver("z3-4.8.12", ["/usr/bin/z3", "-in", "-t:%d" % ms]),
        Solver("z3-5.1.0", ["z3-new", "-in", "-t:%d" % ms]),
        Solver("cvc5-1.0", ["cvc5", "--lang", "smt2", "--incremental", "--tlimit-per=%d" % ms]),
    ]


# ----------------------------------------------------------------------------- interpreter

def split_args(s):
    out, depth, cur = [], 0, ""
    for ch in s:
        if ch in "([<{":
            depth += 1
        if ch in ")]>}":
            depth -= 1
        if ch == "," and depth == 0:
            out.append(cur.strip())
            cur = ""
        else:
            cur += ch
    if cur.strip():
        out.append(cur.strip())
    return out


def parse_place(s):
    s = s.strip()
    if s.startswith("(") and s.endswith(")"):
        inner = s[1:-1]
        depth = 0
        cut = None
        for idx, ch in enumerate(inner):
            if ch in "([<":
                depth += 1
            elif ch in ")]>":
                depth -= 1
            elif ch == ":" and depth == 0 and idx + 1 < len(inner) and inner[idx + 1] == " ":
                cut = idx
                break
        if cut is not None:
            lhs = inner[:cut]
            k = lhs.rsplit(".", 1)
            base, proj = parse_place(k[0])
            return base, proj + [("f", int(k[1]))]
        if inner.startswith("*"):
            base, proj = parse_place(inner[1:])
            return base, proj + [("deref",)]
        m = re.match(r"(.*) as (\w+)$", inner)
        if m:
            base, proj = parse_place(m.group(1))
            return base, proj + [("down", m.group(2))]
        return parse_place(inner)
    if s.startswith("*"):
        base, proj = parse_place(s[1:])
        return base, proj + [("deref",)]
    if not re.match(r"_\d+$", s):
        raise Unsupported("place " + s)
    return s, []


class Interp:
    def __init__(self, fns, structs, enums, ctx, fbsize, effects=None):
        self.fns = fns
        self.structs = structs
        self.enums = enums
        self.ctx = ctx
        self.fbsize = fbsize
        self.panics = []      # (pc, ok_term, msg)
        self.finished = []    # (path, retval, status)
        self.inlined = set()
        self.feasible = None  # optional callback(pc) -> bool

    # ---- function lookup
    def find(self, pred, what):
        c = [f for h, f in self.fns.items() if pred(h)]
        if len(c) != 1:
            raise Unsupported("cannot resolve %s uniquely (%d candidates)" % (what, len(c)))
        return c[0]

    def resolve(self, callee):
        c = callee
        m = re.match(r"<(\w+) as From<(\w+)>>::from$", c)
        if m and m.group(1) in ("u32", "u64", "usize", "i32", "i64"):
            return ("widen", WIDTH[m.group(1)])
        if m:
            dst, src = m.group(1), m.group(2)
            return self.find(lambda h: re.search(r"::from\(_1: (?:[\w:]+::)?%s\) -> (?:[\w:]+::)?%s \{$" % (src, dst), h) is not None, c)
        if re.search(r"<impl i32>::rem_euclid$", c):
            return ("rem_euclid",)
        if "as Fn<" in c and c.endswith("::call"):
            return ("closure",)
        if "as Try>::branch" in c:
            return ("try_branch",)
        if "from_residual" in c:
            return ("from_residual",)
        if "write_command" in c or "write_raw" in c or "OutputPin>::set_" in c or "DelayNs>::delay_" in c or "Model>::init" in c or "send_command" in c:
            return ("effect", c)
        # inherent / module-qualified functions: last segment = fn name, first segment = module
        segs = [x for x in re.split(r"::(?![^<]*>)", c) if x]
        name = segs[-1]
        name = re.sub(r"<.*>$", "", name)
        cands = [f for h, f in self.fns.items() if re.search(r"::%s\(" % re.escape(name), h)]
        if len(cands) == 1:
            return cands[0]
        if len(segs) >= 2:
            owner = re.sub(r"<.*>$", "", segs[-2])
            mod = segs[0]
            c2 = [f for f in cands if f.header.startswith("fn " + mod + "::")]
            if len(c2) == 1:
                return c2[0]
            # owner type appears as self/param/return type or in the impl's file name
            c3 = [f for f in cands if re.search(r"\b%s\b" % re.escape(owner), f.header)]
            if len(c3) == 1:
                return c3[0]
            c4 = [f for f in c3 if re.search(r"-> (?:[\w:]+::)?%s \{$" % re.escape(owner), f.header)]
            if len(c4) == 1:
                return c4[0]
            c5 = [f for f in cands if re.search(r"\(_1: (?:&(?:mut )?)?(?:[\w:]+::)?%s[,)]" % re.escape(owner), f.header)]
            if len(c5) == 1:
                return c5[0]
        raise Unsupported("cannot resolve call " + c)

    # ---- operands / places
    def const(self, c, fn):
        c = c.strip()
        m = re.match(r"(-?\d+)_([iu]\d+|usize|isize)$", c)
        if m:
            return cbv(WIDTH[m.group(2)], int(m.group(1)), m.group(2).startswith("i"))
        if c == "true":
            return boolv("true")
        if c == "false":
            return boolv("false")
        if c == "()":
            return UNIT
        if "FRAMEBUFFER_SIZE" in c:
            return self.fbsize
        if c.startswith("ZeroSized"):
            return ("opaque", c)
        m = re.match(r"(?:[\w:]+::)?(\w+)::(\w+)$", c)
        if m and m.group(1) in self.enums and m.group(2) in self.enums[m.group(1)]:
            return ("enum", self.enums[m.group(1)].index(m.group(2)), [])
        if re.match(r"[\w:]+$", c) and c.split("::")[-1] in self.structs and not self.structs[c.split("::")[-1]]:
            return UNIT
        raise Unsupported("const " + c)

    def operand(self, st, s, fn):
        s = s.strip()
        if s.startswith("copy ") or s.startswith("move "):
            return self.read(st, s[5:].strip())
        if s.startswith("const "):
            return self.const(s[6:], fn)
        raise Unsupported("operand " + s)

    def read(self, st, s):
        base, proj = parse_place(s)
        if base not in st:
            raise Unsupported("read of unset local " + base)
        v = st[base]
        for p in proj:
            if p[0] == "f":
                if v[0] == "agg":
                    v = v[1][p[1]]
                elif v[0] == "enum":
                    v = v[2][p[1]]
                elif v[0] == "opaque":
                    v = ("opaque", v[1] + ".%d" % p[1])
                elif v[0] == "cf":
                    v = ("opaque", "control-flow payload")
                else:
                    raise Unsupported("field of " + v[0])
            elif p[0] == "deref":
                if v[0] != "ref":
                    raise Unsupported("deref of " + v[0])
                v = v[1]() if callable(v[1]) else v[1]
            elif p[0] == "down":
                pass
        return v

    def write(self, st, s, val):
        base, proj = parse_place(s)
        if not proj:
            st[base] = val
            return
        # writes through references are resolved by the ref's setter
        def upd(v, proj):
            if not proj:
                return val
            p = proj[0]
            if p[0] == "f" and v[0] == "agg":
                items = list(v[1])
                items[p[1]] = upd(items[p[1]], proj[1:])
                return ("agg", items)
            raise Unsupported("write projection %r into %s" % (p, v[0]))
        st[base] = upd(st[base], proj)

    # ---- arithmetic
    def binop(self, op, a, b):
        if op in ("Eq", "Ne", "Lt", "Le", "Gt", "Ge"):
            if a[0] == "bool":
                e = "(= %s %s)" % (a[1], b[1])
                return boolv(e if op == "Eq" else "(not %s)" % e)
            if a[0] != "bv" or b[0] != "bv":
                raise Unsupported("compare " + a[0])
            s = a[3]
            f = {"Eq": "=", "Ne": "distinct", "Lt": "bvslt" if s else "bvult", "Le": "bvsle" if s else "bvule",
                 "Gt": "bvsgt" if s else "bvugt", "Ge": "bvsge" if s else "bvuge"}[op]
            return boolv("(%s %s %s)" % (f, a[2], b[2]))
        if a[0] == "bool":
            f = {"BitXor": "xor", "BitAnd": "and", "BitOr": "or"}.get(op)
            if not f:
                raise Unsupported("bool op " + op)
            return boolv("(%s %s %s)" % (f, a[1], b[1]))
        if op in ("Shl", "Shr"):
            sh = b[2]
            if b[1] < a[1]:
                sh = "((_ zero_extend %d) %s)" % (a[1] - b[1], sh)
            elif b[1] > a[1]:
                sh = "((_ extract %d 0) %s)" % (a[1] - 1, sh)
            f = "bvshl" if op == "Shl" else ("bvashr" if a[3] else "bvlshr")
            return bv(a[1], "(%s %s %s)" % (f, a[2], sh), a[3])
        f = {"Add": "bvadd", "Sub": "bvsub", "Mul": "bvmul", "BitAnd": "bvand", "BitOr": "bvor", "BitXor": "bvxor"}.get(op)
        if not f:
            raise Unsupported("binop " + op)
        return bv(a[1], "(%s %s %s)" % (f, a[2], b[2]), a[3])

    def with_overflow(self, op, a, b):
        w, s = a[1], a[3]
        res = self.binop(op, a, b)
        if op == "Add":
            ov = ("(bvsaddo %s %s)" if s else "(bvult %s %s)") % ((a[2], b[2]) if s else (res[2], a[2]))
            if s:
                ea = "((_ sign_extend 1) %s)" % a[2]
                eb = "((_ sign_extend 1) %s)" % b[2]
                sm = "(bvadd %s %s)" % (ea, eb)
                ov = "(distinct %s ((_ sign_extend 1) %s))" % (sm, res[2])
        elif op == "Sub":
            if s:
                sm = "(bvsub ((_ sign_extend 1) %s) ((_ sign_extend 1) %s))" % (a[2], b[2])
                ov = "(distinct %s ((_ sign_extend 1) %s))" % (sm, res[2])
            else:
                ov = "(bvult %s %s)" % (a[2], b[2])
        elif op == "Mul":
            ext = "sign_extend" if s else "zero_extend"
            pm = "(bvmul ((_ %s %d) %s) ((_ %s %d) %s))" % (ext, w, a[2], ext, w, b[2])
            ov = "(distinct %s ((_ %s %d) %s))" % (pm, ext, w, res[2])
        else:
            raise Unsupported("overflow op " + op)
        return ("agg", [res, boolv(ov)])

    # ---- execution
    def run(self, fn, args, path, k, stop_blocks=()):
        st = {}
        for p, a in zip(fn.params, args):
            st[p] = a
        self.inlined.add(fn.name)
        self.exec_block(fn, "bb0", st, path, k, stop_blocks, 0)

    def exec_block(self, fn, bb, st, path, k, stop_blocks, depth):
        if depth > 400:
            raise Unsupported("block depth (loop?) in " + fn.name)
        if bb in stop_blocks:
            return k(path, ("stopped", bb), st)
        st = dict(st)
        for s in fn.blocks[bb]:
            s = s.rstrip(";")
            if s.startswith(("StorageLive", "StorageDead", "nop", "PlaceMention", "FakeRead", "ConstEvalCounter", "Retag", "AscribeUserType", "Coverage")):
                continue
            m = re.match(r"goto -> (bb\d+)$", s)
            if m:
                return self.exec_block(fn, m.group(1), st, path, k, stop_blocks, depth + 1)
            if s == "return":
                return k(path, st.get("_0", UNIT), st)
            if s == "unreachable":
                self.panics.append((list(path.pc), "false", "unreachable reached @%s:%s" % (fn.name.split("::")[-1], bb)))
                return
            m = re.match(r"drop\(.*\) -> \[return: (bb\d+)", s)
            if m:
                return self.exec_block(fn, m.group(1), st, path, k, stop_blocks, depth + 1)
            m = re.match(r"switchInt\((.*?)\) -> \[(.*)\]$", s)
            if m:
                v = self.operand(st, m.group(1), fn)
                targets = [t.strip() for t in m.group(2).split(",")]
                taken = []
                for t in targets:
                    val, dst = t.split(": ")
                    if val == "otherwise":
                        cond = "(and true %s)" % " ".join("(not %s)" % c for c in taken)
                    else:
                        if v[0] == "bool":
                            cond = ("(not %s)" % v[1]) if val == "0" else v[1]
                        elif v[0] == "bv":
                            cond = "(= %s (_ bv%d %d))" % (v[2], int(val) % (1 << v[1]), v[1])
                        elif v[0] == "disc":  # concrete discriminant
                            cond = "true" if v[1] == int(val) else "false"
                        else:
                            raise Unsupported("switch on " + v[0])
                        taken.append(cond)
                    if cond == "false":
                        continue
                    p2 = path.fork(cond)
                    if self.feasible and not self.feasible(p2.pc):
                        continue
                    self.exec_block(fn, dst, st, p2, k, stop_blocks, depth + 1)
                return
            m = re.match(r'assert\((!?)(.*?), "(.*?)".*\) -> \[success: (bb\d+), unwind', s)
            if m:
                c = self.operand(st, m.group(2), fn)
                if c[0] != "bool":
                    raise Unsupported("assert on " + c[0])
                ok = "(not %s)" % c[1] if m.group(1) == "!" else c[1]
                self.panics.append((list(path.pc), ok, m.group(3)[:60] + " @" + fn.name.split("::")[-1] + ":" + bb))
                return self.exec_block(fn, m.group(4), st, path.fork(ok), k, stop_blocks, depth + 1)
            m = re.match(r"(.+?) = (.+) -> \[return: (bb\d+), unwind", s)
            if m:
                return self.call(fn, st, path, k, stop_blocks, depth, m.group(1), m.group(2), m.group(3))
            m = re.match(r"(.+?) = (?:[\w:<>]*::)?(panic\w*|unreachable\w*|expect_failed|unwrap_failed)\((.*)\) -> unwind", s)
            if m:
                # diverging call (panic!, unreachable!, failed expect/unwrap): reaching it is a panic
                self.panics.append((list(path.pc), "false", "explicit panic reached: %s @%s:%s" % (m.group(3)[:50], fn.name.split("::")[-1], bb)))
                return
            m = re.match(r"(.+?) = (.+)$", s)
            if not m:
                raise Unsupported("statement " + s)
            self.assign(fn, st, m.group(1), m.group(2))
        raise Unsupported("fell off block " + bb)

    def assign(self, fn, st, dst, rhs):
        rhs = rhs.strip()
        m2 = re.match(r"(\w+)\((.*)\)$", rhs)
        if m2 and m2.group(1) in ("AddWithOverflow", "SubWithOverflow", "MulWithOverflow"):
            a, b = [self.operand(st, x, fn) for x in split_args(m2.group(2))]
            return self.write(st, dst, self.with_overflow(m2.group(1)[:3], a, b))
        if m2 and m2.group(1) in ("Add", "Sub", "Mul", "Eq", "Ne", "Lt", "Le", "Gt", "Ge", "BitXor", "BitAnd", "BitOr", "Shl", "Shr",
                                  "AddUnchecked", "SubUnchecked", "ShlUnchecked", "ShrUnchecked"):
            a, b = [self.operand(st, x, fn) for x in split_args(m2.group(2))]
            return self.write(st, dst, self.binop(m2.group(1).replace("Unchecked", ""), a, b))
        if m2 and m2.group(1) == "Not":
            a = self.operand(st, m2.group(2), fn)
            if a[0] == "bool":
                return self.write(st, dst, boolv("(not %s)" % a[1]))
            return self.write(st, dst, bv(a[1], "(bvnot %s)" % a[2], a[3]))
        if m2 and m2.group(1) == "discriminant":
            v = self.read(st, m2.group(2))
            if v[0] == "enum":
                d = v[1]
                if isinstance(d, int):
                    return self.write(st, dst, ("disc", d))
                return self.write(st, dst, bv(64, "((_ zero_extend %d) %s)" % (64 - d[1], d[2]), True))
            if v[0] == "cf":
                return self.write(st, dst, bv(64, "(ite %s (_ bv0 64) (_ bv1 64))" % v[1][1], True))
            if v[0] == "bv":
                return self.write(st, dst, bv(64, "((_ zero_extend %d) %s)" % (64 - v[1], v[2]), True))
            if v[0] == "opaque_option":
                return self.write(st, dst, bv(64, "(ite %s (_ bv1 64) (_ bv0 64))" % v[1][1], True))
            raise Unsupported("discriminant of " + v[0])
        m = re.match(r"(copy|move) (.*) as (\w+) \(IntToInt\)$", rhs)
        if m or re.match(r"const .* as \w+ \(IntToInt\)$", rhs):
            if m:
                v = self.read(st, m.group(2))
                to = m.group(3)
            else:
                mm = re.match(r"(const .*) as (\w+) \(IntToInt\)$", rhs)
                v = self.operand(st, mm.group(1), fn)
                to = mm.group(2)
            tw, ts = WIDTH[to], to.startswith("i")
            if v[0] == "bool":
                return self.write(st, dst, bv(tw, "(ite %s (_ bv1 %d) (_ bv0 %d))" % (v[1], tw, tw), ts))
            if v[0] == "enum" and not isinstance(v[1], int):
                v = v[1]
            if v[0] != "bv":
                raise Unsupported("cast of " + v[0])
            if tw == v[1]:
                t = v[2]
            elif tw < v[1]:
                t = "((_ extract %d 0) %s)" % (tw - 1, v[2])
            else:
                t = "((_ %s %d) %s)" % ("sign_extend" if v[3] else "zero_extend", tw - v[1], v[2])
            return self.write(st, dst, bv(tw, t, ts))
        if rhs.startswith("&mut ") or rhs.startswith("&"):
            place = rhs[5:] if rhs.startswith("&mut ") else rhs[1:]
            place = place.strip()
            snap = st
            return self.write(st, dst, ("ref", (lambda pl=place, s=snap: self.read(s, pl))))
        if rhs.startswith("(") and not re.match(r"\(\(?\*?_\d+", rhs):
            items = [self.operand(st, x, fn) for x in split_args(rhs[1:-1])]
            return self.write(st, dst, ("agg", items))
        m3 = re.match(r"([\w:<>, ]+?) \{ (.*) \}$", rhs)
        if m3:
            name = re.sub(r"<.*>", "", m3.group(1)).split("::")[-1].strip()
            fields = dict((f.split(": ")[0], f.split(": ", 1)[1]) for f in split_args(m3.group(2)))
            if name not in self.structs:
                raise Unsupported("struct " + name)
            items = [self.operand(st, fields[f], fn) if f in fields else ("opaque", f) for f in self.structs[name]]
            return self.write(st, dst, ("agg", items))
        # enum variant / tuple-struct aggregates:  Path::Variant(args)  |  Path::Variant
        m4 = re.match(r"((?:[\w]+::)*)(\w+)(?:::<.*?>)?::(\w+)(?:\((.*)\))?$", rhs)
        if m4 and m4.group(2) in self.enums and m4.group(3) in self.enums[m4.group(2)]:
            args = [self.operand(st, x, fn) for x in split_args(m4.group(4))] if m4.group(4) else []
            return self.write(st, dst, ("enum", self.enums[m4.group(2)].index(m4.group(3)), args))
        m5 = re.match(r"((?:[\w]+::)*)(\w+)(?:\((.*)\))?$", rhs)
        if m5 and not rhs.startswith(("copy ", "move ", "const ")):
            name = m5.group(2)
            if name in self.structs or m5.group(3) is not None:
                args = [self.operand(st, x, fn) for x in split_args(m5.group(3))] if m5.group(3) else []
                return self.write(st, dst, ("agg", args))
            for en, vs in self.enums.items():
                if name in vs and rhs.endswith(en + "::" + name):
                    return self.write(st, dst, ("enum", vs.index(name), []))
        if rhs.startswith(("copy ", "move ", "const ")):
            return self.write(st, dst, self.operand(st, rhs, fn))
        raise Unsupported("rvalue " + rhs)

    def call(self, fn, st, path, k, stop_blocks, depth, dst, call, nxt):
        if not call.endswith(")"):
            raise Unsupported("call syntax " + call)
        d = 0
        pos = None
        for i in range(len(call) - 1, -1, -1):
            if call[i] == ")":
                d += 1
            elif call[i] == "(":
                d -= 1
                if d == 0:
                    pos = i
                    break
        callee, argstr = call[:pos], call[pos + 1:-1]
        raw_args = split_args(argstr)
        target = self.resolve(callee)

        def cont(p, rv, st=st):
            st2 = dict(st)
            self.write(st2, dst, rv)
            self.exec_block(fn, nxt, st2, p, k, stop_blocks, depth + 1)

        if isinstance(target, Fn):
            args = [self.operand(st, a, fn) for a in raw_args]
            return self.run_inline(target, args, path, cont)
        kind = target[0]
        if kind == "widen":
            a = self.operand(st, raw_args[0], fn)
            return cont(path, bv(target[1], "((_ zero_extend %d) %s)" % (target[1] - a[1], a[2]), False))
        if kind == "rem_euclid":
            a = self.operand(st, raw_args[0], fn)
            b = self.operand(st, raw_args[1], fn)
            mc = re.match(r"\(_ bv(\d+) 32\)$", b[2])
            if not mc or not (0 < int(mc.group(1)) < (1 << 31)):
                raise Unsupported("rem_euclid with a non-constant or non-positive divisor")
            r = "(bvsrem %s %s)" % (a[2], b[2])
            return cont(path, bv(32, "(ite (bvslt %s (_ bv0 32)) (bvadd %s %s) %s)" % (r, r, b[2], r), True))
        if kind == "closure":
            clos = self.find(lambda h: "::{closure#0}(" in h and h.startswith("fn " + fn.name.split("::{")[0]), "closure of " + fn.name)
            tup = self.operand(st, raw_args[1], fn)
            return self.run_inline(clos, [("opaque", "closure")] + list(tup[1]), path, cont)
        if kind == "effect":
            args = []
            for a in raw_args:
                try:
                    args.append(self.operand(st, a, fn))
                except Unsupported:
                    args.append(("opaque", a))
            ok = self.ctx.fresh_bool("eff_ok")
            path = Path(path.pc, path.events + [(target[1], args, ok)])
            return cont(path, ("result", ok))
        if kind == "try_branch":
            r = self.operand(st, raw_args[0], fn)
            if r[0] != "result":
                raise Unsupported("Try::branch on " + r[0])
            return cont(path, ("cf", r[1]))
        if kind == "from_residual":
            return cont(path, ("result", boolv("false")))
        raise Unsupported("call kind " + kind)

    def run_inline(self, target, args, path, cont):
        st = {}
        for p, a in zip(target.params, args):
            st[p] = a
        self.inlined.add(target.name)
        self.exec_block(target, "bb0", st, path, lambda p, rv, _st: cont(p, rv), (), 0)


# ----------------------------------------------------------------------------- obligations

class Engine:
    def __init__(self, scratch_dir, seed=0, timeout_s=60):
        self.scratch = scratch_dir
        self.seed = seed
        self.text, self.dump_s, self.src = dump_mir(scratch_dir)
        self.fns = parse_bodies(self.text)
        self.structs, self.enums = parse_source_types(self.src)
        self.solvers = make_solvers(timeout_s)
        self.obligations = []
        self.tv = {}
        self.functions = set()
        self.timeout_s = timeout_s

    def close(self):
        for s in self.solvers:
            s.close()

    def fn(self, pattern):
        c = [f for h, f in self.fns.items() if re.search(pattern, h)]
        if len(c) != 1:
            raise Unsupported("kernel %s: %d bodies match" % (pattern, len(c)))
        return c[0]

    def decide(self, name, decls, asserts, expect="unsat", get=None, what=""):
        """expect 'unsat' (obligation holds iff unsat) or 'sat' (negative control / feasibility)"""
        answers = {}
        model = {}
        import concurrent.futures as cf
        with cf.ThreadPoolExecutor(max_workers=len(self.solvers)) as ex:
            futs = [(s, ex.submit(s.check, decls, asserts, self.timeout_s, get)) for s in self.solvers]
            for s, f in futs:
                r, m = f.result()
                answers[s.name] = r
                if r == "sat" and m and not model:
                    model = m
        vals = list(answers.values())
        if expect == "unsat":
            if "sat" in vals:
                verdict = "candidate"
            elif vals.count("unsat") >= 2:
                verdict = "holds"
            else:
                verdict = "inconclusive"
        else:
            verdict = "holds" if "sat" in vals and "unsat" not in vals else ("inconclusive" if "sat" not in vals and "unsat" not in vals else "failed-control")
        ob = {"name": name, "expect": expect, "answers": answers, "verdict": verdict, "what": what}
        if model:
            ob["model"] = model
        self.obligations.append(ob)
        return ob

    def feasible_cb(self, decls_fn, pre):
        z3 = self.solvers[0]

        def cb(pc):
            r, _ = z3.check(decls_fn(), pre + pc, 20)
            return r != "unsat"
        return cb


def zx(v, to=32):
    return "((_ zero_extend %d) %s)" % (to - v[1], v[2])


def rot_cases(rot, exprs):
    """ite over the 4 rotation discriminants"""
    return "(ite (= R (_ bv0 8)) %s (ite (= R (_ bv1 8)) %s (ite (= R (_ bv2 8)) %s %s)))".replace("R", rot[2]) % tuple(exprs)


def mk_orientation(ctx):
    rot = ctx.fresh(8, "rot")
    mir = ctx.fresh_bool("mirrored")
    return rot, mir, ("agg", [("enum", rot, []), mir])


def kernel_set_address_window(E):
    """C01/C08: Display::set_address_window for every framebuffer size"""
    ctx = Ctx()
    FW, FH = ctx.fresh(16, "FW"), ctx.fresh(16, "FH")
    w, h, ox, oy = (ctx.fresh(16, n) for n in ("w", "h", "ox", "oy"))
    rot, mir, orientation = mk_orientation(ctx)
    mo = E.structs.get("ModelOptions")
    if not mo:
        raise Unsupported("ModelOptions struct not found")
    optvals = {"orientation": orientation, "display_size": ("agg", [w, h]), "display_offset": ("agg", [ox, oy])}
    options = ("agg", [optvals.get(f, ("opaque", f)) for f in mo])
    dsp = E.structs.get("Display")
    display = ("agg", [options if f == "options" else ("opaque", f) for f in dsp])
    sx, sy, ex, ey = (ctx.fresh(16, n) for n in ("sx", "sy", "ex", "ey"))
    vert = "(or (= %s (_ bv1 8)) (= %s (_ bv3 8)))" % (rot[2], rot[2])
    lw = "(ite %s %s %s)" % (vert, h[2], w[2])
    lh = "(ite %s %s %s)" % (vert, w[2], h[2])
    pre = [
        "(bvuge %s (_ bv1 16))" % FW[2], "(bvuge %s (_ bv1 16))" % FH[2],
        "(bvuge %s (_ bv1 16))" % w[2], "(bvuge %s (_ bv1 16))" % h[2],
        "(bvule (bvadd %s %s) %s)" % (zx(w), zx(ox), zx(FW)), "(bvule (bvadd %s %s) %s)" % (zx(h), zx(oy), zx(FH)),
        "(bvult %s (_ bv4 8))" % rot[2],
        "(bvule %s %s)" % (sx[2], ex[2]), "(bvule %s %s)" % (sy[2], ey[2]),
        "(bvult %s %s)" % (ex[2], lw), "(bvult %s %s)" % (ey[2], lh),
    ]
    fn = E.fn(r"::set_address_window\(")
    it = Interp(E.fns, E.structs, E.enums, ctx, ("agg", [FW, FH]))
    it.feasible = E.feasible_cb(lambda: ctx.decls, pre)
    it.run(fn, [("ref", display), sx, sy, ex, ey], Path(), lambda p, rv, st: it.finished.append((p, rv)))
    E.functions |= it.inlined
    # the address-mode bits come from the encoded with_orientation / from_orientation, not from an oracle
    it2 = Interp(E.fns, E.structs, E.enums, ctx, ("agg", [FW, FH]))
    it2.feasible = it.feasible
    wo = E.fn(r"set_address_mode::.*::with_orientation\(")
    madctls = []
    it2.run(wo, [("agg", [cbv(8, 0)]), orientation], Path(), lambda p, rv, st: madctls.append((p, rv)))
    E.functions |= it2.inlined
    for n, (pc, ok, msg) in enumerate(it.panics + it2.panics):
        E.decide("saw/panic-free/%d" % n, ctx.decls, pre + pc + ["(not %s)" % ok], what="no overflow/panic: " + msg)
    x, y = ctx.fresh(16, "x"), ctx.fresh(16, "y")
    inrect = ["(bvule %s %s)" % (sx[2], x[2]), "(bvule %s %s)" % (x[2], ex[2]), "(bvule %s %s)" % (sy[2], y[2]), "(bvule %s %s)" % (y[2], ey[2])]
    one = "(_ bv1 16)"
    wm1, hm1 = "(bvsub %s %s)" % (w[2], one), "(bvsub %s %s)" % (h[2], one)
    exx = rot_cases(rot, [x[2], "(bvsub %s %s)" % (wm1, y[2]), "(bvsub %s %s)" % (wm1, x[2]), y[2]])
    exy = rot_cases(rot, [y[2], x[2], "(bvsub %s %s)" % (hm1, y[2]), "(bvsub %s %s)" % (hm1, x[2])])
    exx = "(ite %s (bvsub %s %s) %s)" % (mir[1], wm1, exx, exx)
    npaths = 0
    tvpaths = []
    for n, (p, rv) in enumerate(it.finished):
        evs = [e for e in p.events if "write_command" in e[0]]
        if len(evs) < 2:
            continue
        # only paths where both writes succeeded matter for the geometry
        for m_n, (mp, mrv) in enumerate(madctls):
            both = pre + p.pc + mp.pc
            r, _ = E.solvers[0].check(ctx.decls, both, 20)
            if r == "unsat":
                continue
            npaths += 1
            mad = mrv[1][0]
            caset, raset = evs[0][1][1], evs[1][1][1]
            sc, ec = caset[1][0][2], caset[1][1][2]
            sp, ep = raset[1][0][2], raset[1][1][2]
            tvpaths.append((p.pc + mp.pc + [e[2][1] for e in evs], [(16, sc), (16, ec), (16, sp), (16, ep), (8, mad[2])]))
            mvb = "(= ((_ extract 5 5) %s) #b1)" % mad[2]
            mxb = "(= ((_ extract 6 6) %s) #b1)" % mad[2]
            myb = "(= ((_ extract 7 7) %s) #b1)" % mad[2]
            col = "(bvadd %s (bvsub %s %s))" % (sc, x[2], sx[2])
            row = "(bvadd %s (bvsub %s %s))" % (sp, y[2], sy[2])
            a = "(ite %s %s %s)" % (mvb, row, col)
            b = "(ite %s %s %s)" % (mvb, col, row)
            px = "(ite %s (bvsub (bvsub %s %s) %s) %s)" % (mxb, FW[2], one, a, a)
            py = "(ite %s (bvsub (bvsub %s %s) %s) %s)" % (myb, FH[2], one, b, b)
            goal = ("(and (= %s (bvadd %s %s)) (= %s (bvadd %s %s)) (bvule %s %s) (bvule %s %s) "
                    "(bvult %s (ite %s %s %s)) (bvult %s (ite %s %s %s)) "
                    "(= (bvsub %s %s) (bvsub %s %s)) (= (bvsub %s %s) (bvsub %s %s)))") % (
                px, exx, ox[2], py, exy, oy[2], sc, ec, sp, ep,
                ec, mvb, FH[2], FW[2], ep, mvb, FW[2], FH[2],
                ec, sc, ex[2], sx[2], ep, sp, ey[2], sy[2])
            E.decide("saw/geometry/path%d.%d" % (n, m_n), ctx.decls, both + inrect + ["(not %s)" % goal],
                     get=[v[2] for v in (FW, FH, w, h, ox, oy, rot, sx, sy, ex, ey, x, y)] + [mir[1]],
                     what="[C01][C08] emitted CASET/RASET decode (MADCTL bits from the encoded with_orientation) to the rotate/mirror/offset oracle for every point of the rectangle; start<=end; end inside the framebuffer under MV; window size = rectangle size; for all FW,FH")
            if m_n == 0 and n == 0:
                bad = goal.replace("(bvadd %s %s)) (= %s" % (exx, ox[2], py), "(bvadd %s %s)) (= %s" % (exx, oy[2], py), 1)
                E.decide("saw/negative-control", ctx.decls, both + inrect + ["(not %s)" % bad], expect="sat",
                         what="negative control: offset axes swapped in the goal must be refutable")
    if npaths == 0:
        raise Unsupported("no feasible path with two address commands")
    E.tv["saw"] = dict(decls=list(ctx.decls), pre=pre, paths=tvpaths,
                       inputs=[FW[2], FH[2], w[2], h[2], ox[2], oy[2], rot[2], mir[1], sx[2], sy[2], ex[2], ey[2]],
                       extra=[x[2], y[2]])
    return {"paths": npaths}


def kernel_init_validation(E):
    """C09: validation prefix of Builder::init for every framebuffer size"""
    ctx = Ctx()
    FW, FH = ctx.fresh(16, "FW"), ctx.fresh(16, "FH")
    w, h, ox, oy = (ctx.fresh(16, n) for n in ("w", "h", "ox", "oy"))
    mo = E.structs.get("ModelOptions")
    optvals = {"display_size": ("agg", [w, h]), "display_offset": ("agg", [ox, oy])}
    options = ("agg", [optvals.get(f, ("opaque", f)) for f in mo])
    has_rst = ctx.fresh_bool("has_rst")
    bvals = {"options": options, "rst": ("opaque_option", has_rst)}
    builder = ("agg", [bvals.get(f, ("opaque", f)) for f in E.structs.get("Builder")])
    pre = ["(bvuge %s (_ bv1 16))" % FW[2], "(bvuge %s (_ bv1 16))" % FH[2]]
    fn = E.fn(r"^fn builder::.*::init\(_1: ")
    # the validation prefix ends at the first block that inspects the reset pin option
    stop = None
    for bb, stmts in fn.blocks.items():
        if any("discriminant((_1." in s and "Option<RST>" in s for s in stmts):
            stop = bb
            break
    if stop is None:
        raise Unsupported("reset-pin switch not found in Builder::init")
    it = Interp(E.fns, E.structs, E.enums, ctx, ("agg", [FW, FH]))
    it.feasible = E.feasible_cb(lambda: ctx.decls, pre)
    outs = []
    it.run(fn, [builder, ("opaque", "delay")], Path(), lambda p, rv, st: outs.append((p, rv)), stop_blocks=(stop,))
    E.functions |= it.inlined
    for n, (pc, ok, msg) in enumerate(it.panics):
        E.decide("init/panic-free/%d" % n, ctx.decls, pre + pc + ["(not %s)" % ok], what="[C09] no wrap-around: " + msg)
    fits = "(and (bvuge %s (_ bv1 16)) (bvuge %s (_ bv1 16)) (bvule %s %s) (bvule %s %s) (bvule (bvadd %s %s) %s) (bvule (bvadd %s %s) %s))" % (
        w[2], h[2], w[2], FW[2], h[2], FH[2], zx(w), zx(ox), zx(FW), zx(h), zx(oy), zx(FH))
    sizebad = "(or (= %s (_ bv0 16)) (= %s (_ bv0 16)) (bvugt %s %s) (bvugt %s %s))" % (w[2], h[2], w[2], FW[2], h[2], FH[2])
    ce = E.enums.get("ConfigurationError")
    n_acc = n_rej = 0
    tvpaths = []
    for n, (p, rv) in enumerate(outs):
        if p.events:
            kinds = [e[0] for e in p.events]
        else:
            kinds = []
        if rv[0] == "stopped":
            n_acc += 1
            tvpaths.append((p.pc, "accept"))
            E.decide("init/accept-implies-fits/%d" % n, ctx.decls, pre + p.pc + ["(not %s)" % fits],
                     get=[v[2] for v in (FW, FH, w, h, ox, oy)], what="[C09] a configuration that passes validation fits the framebuffer (mathematical integers)")
            if kinds:
                E.obligations.append({"name": "init/no-effect-before-validation/%d" % n, "verdict": "candidate", "what": "effect before validation: %s" % kinds, "answers": {}})
        elif rv[0] == "enum" and rv[1] == 1:
            n_rej += 1
            err = rv[2][0]
            if not (err[0] == "enum" and err[2] and err[2][0][0] == "enum"):
                raise Unsupported("unexpected error value shape")
            which = ce[err[2][0][1]]
            tvpaths.append((p.pc, "size" if which == "InvalidDisplaySize" else "offset"))
            E.decide("init/reject-implies-not-fits/%d" % n, ctx.decls, pre + p.pc + [fits],
                     get=[v[2] for v in (FW, FH, w, h, ox, oy)], what="[C09] a rejected configuration does not fit")
            want = sizebad if which == "InvalidDisplaySize" else "(not %s)" % sizebad
            if which not in ("InvalidDisplaySize", "InvalidDisplayOffset"):
                raise Unsupported("unexpected configuration error " + which)
            E.decide("init/error-kind/%d" % n, ctx.decls, pre + p.pc + ["(not %s)" % want],
                     get=[v[2] for v in (FW, FH, w, h, ox, oy)], what="[C09] InvalidDisplaySize iff zero/oversize, else InvalidDisplayOffset (%s)" % which)
            if kinds:
                E.obligations.append({"name": "init/reject-before-hardware/%d" % n, "verdict": "candidate", "what": "[C09] rejected after touching hardware: %s" % kinds, "answers": {}})
            else:
                E.obligations.append({"name": "init/reject-before-hardware/%d" % n, "verdict": "holds", "what": "[C09] rejecting path contains no pin/delay/bus effect (structural)", "answers": {"structural": "no effect event on path"}})
        else:
            raise Unsupported("unexpected return on a validation path")
    if n_acc == 0 or n_rej == 0:
        raise Unsupported("validation paths not found (accept %d, reject %d)" % (n_acc, n_rej))
    # completeness: every fitting configuration reaches the accept block
    acc_pcs = ["(and true %s)" % " ".join(p.pc) for p, rv in outs if rv[0] == "stopped"]
    E.decide("init/fits-implies-accept", ctx.decls, pre + [fits, "(not (or false %s))" % " ".join(acc_pcs)],
             get=[v[2] for v in (FW, FH, w, h, ox, oy)], what="[C09] every configuration that fits passes validation")
    E.tv["init"] = dict(decls=list(ctx.decls), pre=pre, paths=tvpaths, inputs=[FW[2], FH[2], w[2], h[2], ox[2], oy[2]])
    return {"paths": len(outs)}


def kernel_scroll(E):
    """C16: set_vertical_scroll_region for every number of rows"""
    ctx = Ctx()
    FW, FH = ctx.fresh(16, "FW"), ctx.fresh(16, "FH")
    top, bottom = ctx.fresh(16, "top"), ctx.fresh(16, "bottom")
    dsp = E.structs.get("Display")
    display = ("agg", [("opaque", f) for f in dsp])
    pre = ["(bvuge %s (_ bv1 16))" % FW[2], "(bvuge %s (_ bv1 16))" % FH[2]]
    fn = E.fn(r"::set_vertical_scroll_region\(")
    it = Interp(E.fns, E.structs, E.enums, ctx, ("agg", [FW, FH]))
    it.feasible = E.feasible_cb(lambda: ctx.decls, pre)
    outs = []
    it.run(fn, [("ref", display), top, bottom], Path(), lambda p, rv, st: outs.append((p, rv)))
    E.functions |= it.inlined
    for n, (pc, ok, msg) in enumerate(it.panics):
        E.decide("scroll/panic-free/%d" % n, ctx.decls, pre + pc + ["(not %s)" % ok],
                 get=[v[2] for v in (FH, top, bottom)], what="[C16] never panics / wraps: " + msg)
    tvpaths = []
    for n, (p, rv) in enumerate(outs):
        evs = [e for e in p.events if "write_command" in e[0]]
        if len(evs) != 1:
            E.obligations.append({"name": "scroll/one-command/%d" % n, "verdict": "candidate", "what": "[C16] not exactly one command", "answers": {}})
            continue
        cmd = evs[0][1][1]
        tfa, vsa, bfa = (cmd[1][i] for i in range(3))
        tvpaths.append((p.pc, [(16, tfa[2]), (16, vsa[2]), (16, bfa[2])]))
        goal = "(and (= (bvadd (bvadd %s %s) %s) %s) (=> (bvule (bvadd %s %s) %s) (and (= %s %s) (= %s %s))))" % (
            zx(tfa), zx(vsa), zx(bfa), zx(FH), zx(top), zx(bottom), zx(FH), tfa[2], top[2], bfa[2], bottom[2])
        E.decide("scroll/sum/%d" % n, ctx.decls, pre + p.pc + ["(not %s)" % goal],
                 get=[v[2] for v in (FH, top, bottom)], what="[C16] TFA+VSA+BFA = rows (in mathematical integers) and pass-through when it fits, for every number of rows")
    E.tv["scroll"] = dict(decls=list(ctx.decls), pre=pre, paths=tvpaths, inputs=[FW[2], FH[2], top[2], bottom[2]])
    return {"paths": len(outs)}


def kernel_madctl(E):
    """C14: SetAddressMode constructors on the MIR"""
    ctx = Ctx()
    rot, mir, orientation = mk_orientation(ctx)
    co = ctx.fresh(8, "color_order")
    rv_, rh_ = ctx.fresh(8, "refresh_v"), ctx.fresh(8, "refresh_h")
    pre = ["(bvult %s (_ bv4 8))" % rot[2], "(bvult %s (_ bv2 8))" % co[2], "(bvult %s (_ bv2 8))" % rv_[2], "(bvult %s (_ bv2 8))" % rh_[2]]
    start = ctx.fresh(8, "start")
    # the starting byte ranges over the values reachable through the API: new(co0, o0, ro0)
    rot0, co0, rv0, rh0 = ctx.fresh(8, "rot0"), ctx.fresh(8, "co0"), ctx.fresh(8, "rv0"), ctx.fresh(8, "rh0")
    mir0 = ctx.fresh_bool("mir0")
    ro = ("agg", [("enum", rv_, []), ("enum", rh_, [])])
    it = Interp(E.fns, E.structs, E.enums, ctx, None)
    it.feasible = E.feasible_cb(lambda: ctx.decls, pre)
    my = "(or (= R (_ bv2 8)) (= R (_ bv3 8)))".replace("R", rot[2])
    mx = "(xor (or (= R (_ bv1 8)) (= R (_ bv2 8))) %s)".replace("R", rot[2]) % mir[1]
    mv = "(or (= R (_ bv1 8)) (= R (_ bv3 8)))".replace("R", rot[2])

    def bit(c, n):
        return "(ite %s (_ bv%d 8) (_ bv0 8))" % (c, 1 << n)
    obits = "(bvor %s (bvor %s %s))" % (bit(my, 7), bit(mx, 6), bit(mv, 5))
    cbits = bit("(= %s (_ bv1 8))" % co[2], 3)
    rbits = "(bvor %s %s)" % (bit("(= %s (_ bv1 8))" % rv_[2], 4), bit("(= %s (_ bv1 8))" % rh_[2], 2))
    expected = "(bvor %s (bvor %s %s))" % (obits, cbits, rbits)
    sub = lambda t: t.replace(rot[2], rot0[2]).replace(mir[1], mir0[1]).replace(co[2], co0[2]).replace(rv_[2], rv0[2]).replace(rh_[2], rh0[2])
    pre += ["(bvult %s (_ bv4 8))" % rot0[2], "(bvult %s (_ bv2 8))" % co0[2], "(bvult %s (_ bv2 8))" % rv0[2], "(bvult %s (_ bv2 8))" % rh0[2],
            "(= %s %s)" % (start[2], sub(expected))]
    res = {}
    tv = {}
    for nm, pat, args, goal in (
        ("new", r"set_address_mode::.*::new\(", [("enum", co, []), orientation, ro], lambda out: "(= %s %s)" % (out, expected)),
        ("with_orientation", r"set_address_mode::.*::with_orientation\(", [("agg", [start]), orientation],
         lambda out: "(= %s (bvor (bvand %s #x1f) %s))" % (out, start[2], obits)),
        ("with_color_order", r"set_address_mode::.*::with_color_order\(", [("agg", [start]), ("enum", co, [])],
         lambda out: "(= %s (bvor (bvand %s #xf7) %s))" % (out, start[2], cbits)),
        ("with_refresh_order", r"set_address_mode::.*::with_refresh_order\(", [("agg", [start]), ro],
         lambda out: "(= %s (bvor (bvand %s #xeb) %s))" % (out, start[2], rbits)),
    ):
        fn = E.fn(pat)
        outs = []
        np0 = len(it.panics)
        it.run(fn, args, Path(), lambda p, rv, st: outs.append((p, rv)))
        for n, (pc, ok, msg) in enumerate(it.panics[np0:]):
            E.decide("madctl/%s/panic-free/%d" % (nm, n), ctx.decls, pre + pc + ["(not %s)" % ok], what="[C14] shift/overflow check: " + msg)
        tv[nm] = [(p.pc, [(8, rv[1][0][2])]) for (p, rv) in outs]
        for n, (p, rv) in enumerate(outs):
            out = rv[1][0][2]
            E.decide("madctl/%s/path%d" % (nm, n), ctx.decls, pre + p.pc + ["(not %s)" % goal(out)],
                     get=[co0[2], rot0[2], mir0[1], rv0[2], rh0[2], co[2], rot[2], mir[1], rv_[2], rh_[2]],
                     what="[C14] %s: bit-for-bit MIPI encoding; only the setter's own bits change, from every starting byte reachable through the API" % nm)
        res[nm] = len(outs)
    E.functions |= it.inlined
    E.tv["madctl"] = dict(decls=list(ctx.decls), pre=pre, families=tv,
                          inputs=[co0[2], rot0[2], mir0[1], rv0[2], rh0[2], co[2], rot[2], mir[1], rv_[2], rh_[2]])
    return {"paths": res}


def kernel_degree(E):
    """C15: Rotation::try_from_degree over all i32"""
    ctx = Ctx()
    a = ctx.fresh(32, "angle", True)
    fn = E.fn(r"orientation::.*::try_from_degree\(")
    it = Interp(E.fns, E.structs, E.enums, ctx, None)
    it.feasible = E.feasible_cb(lambda: ctx.decls, [])
    outs = []
    it.run(fn, [a], Path(), lambda p, rv, st: outs.append((p, rv)))
    E.functions |= it.inlined
    for n, (pc, ok, msg) in enumerate(it.panics):
        E.decide("degree/panic-free/%d" % n, ctx.decls, pc + ["(not %s)" % ok], what="[C15] never overflows: " + msg)
    rot_names = E.enums.get("Rotation")
    # Euclidean remainder in 32 bits (360 and 90 are positive constants, so no overflow case)
    def mod_e(x, d):
        r = "(bvsrem %s (_ bv%d 32))" % (x, d)
        return "(ite (bvslt %s (_ bv0 32)) (bvadd %s (_ bv%d 32)) %s)" % (r, r, d, r)
    tvpaths = []
    for n, (p, rv) in enumerate(outs):
        if rv[0] != "enum":
            raise Unsupported("unexpected return of try_from_degree")
        tvpaths.append((p.pc, "err" if rv[1] != 0 else "ok %d" % {"Deg0": 0, "Deg90": 90, "Deg180": 180, "Deg270": 270}[rot_names[rv[2][0][1]]]))
        if rv[1] == 0:
            r = rv[2][0]
            deg = {"Deg0": 0, "Deg90": 90, "Deg180": 180, "Deg270": 270}[rot_names[r[1]]]
            goal = "(= %s (_ bv%d 32))" % (mod_e(a[2], 360), deg)
            E.decide("degree/ok-congruent/%d" % n, ctx.decls, p.pc + ["(not %s)" % goal], get=[a[2]],
                     what="[C15] Ok(r): the angle's Euclidean remainder modulo 360 is r.degree() (hence a multiple of 90): %s" % rot_names[r[1]])
        else:
            goal = "(distinct %s (_ bv0 32))" % mod_e(a[2], 90)
            E.decide("degree/err-not-multiple/%d" % n, ctx.decls, p.pc + ["(not %s)" % goal], get=[a[2]],
                     what="[C15] Err only for angles that are not multiples of 90")
    E.tv["deg"] = dict(decls=list(ctx.decls), pre=[], paths=tvpaths, inputs=[a[2]])
    return {"paths": len(outs)}


def _enum_term(v, w=8):
    """bit-vector term of a C-like enum value (concrete index or symbolic discriminant)"""
    if v[0] != "enum":
        raise Unsupported("enum value expected")
    if isinstance(v[1], int):
        return "(_ bv%d %d)" % (v[1], w)
    return v[1][2]


def kernel_orientation(E):
    """C15: Orientation::{rotate, flip_horizontal, flip_vertical} on the MIR: rotations add modulo
    four quarter turns, flips are involutions, horizontal then vertical flip is a half turn"""
    ctx = Ctx()
    rot, mir, o = mk_orientation(ctx)
    r2 = ctx.fresh(8, "by")
    pre = ["(bvult %s (_ bv4 8))" % rot[2], "(bvult %s (_ bv4 8))" % r2[2]]
    it = Interp(E.fns, E.structs, E.enums, ctx, None)
    it.feasible = E.feasible_cb(lambda: ctx.decls, pre)
    f_rot = E.fn(r"::rotate\(_1: Orientation, _2: Rotation\)")
    f_fh = E.fn(r"::flip_horizontal\(_1: Orientation\)")
    f_fv = E.fn(r"::flip_vertical\(_1: Orientation\)")

    def run(fn, args, path=None):
        outs = []
        it.run(fn, args, path or Path(), lambda p, rv, st: outs.append((p, rv)))
        return outs

    n = 0
    for (p, rv) in run(f_rot, [o, ("enum", r2, [])]):
        goal = "(and (= %s (bvand (bvadd %s %s) #x03)) (= %s %s))" % (_enum_term(rv[1][0]), rot[2], r2[2], rv[1][1][1], mir[1])
        E.decide("orientation/rotate/path%d" % n, ctx.decls, pre + p.pc + ["(not %s)" % goal], get=[rot[2], mir[1], r2[2]],
                 what="[C15] Orientation::rotate adds quarter turns modulo four and keeps the mirror flag")
        n += 1
    for nm, f1, f2 in (("flip_horizontal twice", f_fh, f_fh), ("flip_vertical twice", f_fv, f_fv)):
        k = 0
        for (p1, v1) in run(f1, [o]):
            E.decide("orientation/%s/toggles/%d" % (nm.split()[0], k), ctx.decls, pre + p1.pc + ["(= %s %s)" % (v1[1][1][1], mir[1])], get=[rot[2], mir[1]],
                     what="[C15] a flip toggles the mirror flag")
            for (p2, v2) in run(f2, [v1], Path(p1.pc)):
                goal = "(and (= %s %s) (= %s %s))" % (_enum_term(v2[1][0]), rot[2], v2[1][1][1], mir[1])
                E.decide("orientation/%s/%d" % (nm.replace(" ", "_"), k), ctx.decls, pre + p2.pc + ["(not %s)" % goal], get=[rot[2], mir[1]],
                         what="[C15] %s is the identity" % nm)
                k += 1
    k = 0
    for (p1, v1) in run(f_fh, [o]):
        for (p2, v2) in run(f_fv, [v1], Path(p1.pc)):
            goal = "(and (= %s (bvand (bvadd %s #x02) #x03)) (= %s %s))" % (_enum_term(v2[1][0]), rot[2], v2[1][1][1], mir[1])
            E.decide("orientation/flip_h_then_v/%d" % k, ctx.decls, pre + p2.pc + ["(not %s)" % goal], get=[rot[2], mir[1]],
                     what="[C15] horizontal then vertical flip equals a half turn")
            k += 1
    for n2, (pc, ok, msg) in enumerate(it.panics):
        E.decide("orientation/panic-free/%d" % n2, ctx.decls, pre + pc + ["(not %s)" % ok], get=[rot[2], mir[1], r2[2]],
                 what="[C15] no overflow / unreachable: " + msg)
    E.functions |= it.inlined
    return {"paths": n + k}


KERNELS = {
    "C01": [("set_address_window", kernel_set_address_window)],
    "C08": [("set_address_window", kernel_set_address_window)],
    "C09": [("init_validation", kernel_init_validation)],
    "C14": [("madctl", kernel_madctl)],
    "C15": [("try_from_degree", kernel_degree), ("orientation_ops", kernel_orientation)],
    "C16": [("scroll_region", kernel_scroll)],
}


def run_for(prop, scratch, seed, tier):
    """entry point used by check.py; returns the e2 evidence dict"""
    import replay_e2
    t0 = time.time()
    out = {"status": "ok", "kernels": [], "obligations": [], "functions_encoded": [], "solver_time_s": {}, "mir_dump_s": None}
    try:
        E = Engine(scratch.dir, seed, 60 if tier == "quick" else 180)
    except Unsupported as ex:
        return {"status": "inconclusive", "reason": str(ex), "obligations": []}
    out["mir_dump_s"] = E.dump_s
    out["mir_bodies"] = len(E.fns)
    try:
        for name, k in KERNELS.get(prop, []):
            n0 = len(E.obligations)
            try:
                info = k(E)
                out["kernels"].append({"kernel": name, "status": "encoded", **info})
            except Unsupported as ex:
                del E.obligations[n0:]
                out["kernels"].append({"kernel": name, "status": "inconclusive", "reason": str(ex)})
        # translator validation + replay of candidates against the natively compiled crate
        cands = [o for o in E.obligations if o["verdict"] == "candidate"]
        try:
            tv = replay_e2.validate_and_replay(prop, scratch, seed, E, cands)
        except Exception as ex:  # noqa
            tv = {"status": "unavailable", "reason": repr(ex)}
        out["translator_validation"] = tv
        if tv.get("status") != "ok":
            # the encoding could not be validated against the real code on this run: E2 abstains
            for o in E.obligations:
                if o["verdict"] == "candidate":
                    o["verdict"] = "inconclusive"
                    o["what"] += " (not reported: translator validation unavailable)"
        for o in E.obligations:
            o.pop("model", None) if o["verdict"] != "violated" else None
        out["obligations"] = E.obligations
        out["functions_encoded"] = sorted(E.functions)
        out["solver_time_s"] = {s.name: round(s.time, 2) for s in E.solvers}
        out["solver_queries"] = {s.name: s.queries for s in E.solvers}
        out["summary"] = {v: sum(1 for o in E.obligations if o["verdict"] == v) for v in ("holds", "inconclusive", "candidate", "violated", "failed-control")}
    finally:
        E.close()
    out["wall_s"] = round(time.time() - t0, 1)
    return out


if __name__ == "__main__":
    class S:
        dir = sys.argv[2] if len(sys.argv) > 2 else "/root/scratch/e2"
    os.makedirs(S.dir, exist_ok=True)
    r = run_for(sys.argv[1], S, 0, "quick")
    print(json.dumps(r))
