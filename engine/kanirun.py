"""Run Kani harnesses against /repo's current working tree, parse CBMC's verdicts.

Every invocation recompiles the mipidsi crate from /repo (path dependency; the cached
dependency build that setup.sh may have left in /verif/.cache is only ever used for the
third-party crates: the fingerprints of mipidsi and of the harness crate are deleted
from the copy, so cargo rebuilds them from the sources that are on disk now).
"""
import os, re, shutil, subprocess, threading, time, json, tempfile, queue

VERIF = os.path.dirname(os.path.dirname(os.path.abspath(__file__)))
REPO = os.environ.get("VERIF_REPO", "/repo")
GUARD = "almindor_mipidsi_verif"

CFGS = {
    # name: (manifest, cargo feature flags, extra cfgs)
    "main": ("kani", [], []),
    "nobatch": ("kani", ["--no-default-features"], []),
    "ptr16": ("kani", [], [GUARD + "_ptr16"]),
    "smallcap": ("kani", [], [GUARD + "_smallcap"]),
    "incrate": ("repo", [], [GUARD + "_incrate"]),
    "incrate_small": ("repo", [], [GUARD + "_incrate", GUARD + "_smallcap"]),
}


class Scratch:
    """Per-run scratch directory outside /repo and /verif, removed at exit."""

    def __init__(self):
        base = os.environ.get("VERIF_SCRATCH")
        if base:
            os.makedirs(base, exist_ok=True)
        self.dir = tempfile.mkdtemp(prefix="mipidsi-verif-", dir=base)
        self.lock = threading.Lock()
        self.free_slots = {}  # cfg -> [dir]
        self.nslots = 0
        self.repo_copy = None

    def cleanup(self):
        shutil.rmtree(self.dir, ignore_errors=True)

    def harness_crate(self):
        """the harness crate; when VERIF_REPO points somewhere else than /repo (development
        aid for running the checks against a scratch worktree) a copy with the path
        dependency rewritten is used"""
        if REPO == "/repo":
            return os.path.join(VERIF, "kani")
        with self.lock:
            dst = os.path.join(self.dir, "kani-crate")
            if not os.path.exists(dst):
                shutil.copytree(os.path.join(VERIF, "kani"), dst, ignore=shutil.ignore_patterns("target"))
                ct = os.path.join(dst, "Cargo.toml")
                t = open(ct).read().replace('path = "/repo"', 'path = "%s"' % REPO)
                open(ct, "w").write(t)
            return dst

    def repo_snapshot(self):
        """copy of /repo's working tree (sources only) for in-crate runs, so that nothing
        is ever written below /repo"""
        with self.lock:
            if self.repo_copy is None:
                dst = os.path.join(self.dir, "repo")
                shutil.copytree(
                    REPO, dst, ignore=shutil.ignore_patterns("target", ".git", "examples")
                )
                self.repo_copy = dst
            return self.repo_copy

    def get_slot(self, cfg):
        with self.lock:
            lst = self.free_slots.setdefault(cfg, [])
            if lst:
                return lst.pop()
            self.nslots += 1
            d = os.path.join(self.dir, "tgt-%s-%d" % (cfg, self.nslots))
        tmpl = os.path.join(VERIF, ".cache", "tgt-" + cfg)
        if os.path.isdir(tmpl) and not os.environ.get("VERIF_NO_TEMPLATE"):
            subprocess.run(["cp", "-a", "--reflink=auto", tmpl, d], check=False)
            # force cargo to rebuild the code under test and the harness crate
            for root, dirs, _files in os.walk(d):
                for dn in list(dirs):
                    if root.endswith(".fingerprint") and (dn.startswith("mipidsi-") or dn.startswith("mipidsi_verif-")):
                        shutil.rmtree(os.path.join(root, dn), ignore_errors=True)
        else:
            os.makedirs(d, exist_ok=True)
        return d

    def put_slot(self, cfg, d):
        with self.lock:
            self.free_slots.setdefault(cfg, []).append(d)


def kani_cmd(scratch, cfg, harness_path, slot, extra=(), manifest_override=None):
    manifest, feat, cfgs = CFGS[cfg]
    if manifest_override:
        mp = manifest_override
    elif manifest == "kani":
        mp = os.path.join(scratch.harness_crate(), "Cargo.toml")
    else:
        mp = os.path.join(scratch.repo_snapshot(), "Cargo.toml")
    env = dict(os.environ)
    env["RUSTFLAGS"] = " ".join("--cfg " + c for c in [GUARD] + cfgs)
    env["CARGO_NET_OFFLINE"] = "true"
    env["MIPIDSI_VERIF_INCRATE"] = os.path.join(VERIF, "incrate")
    env.pop("RUSTUP_TOOLCHAIN", None)
    cmd = ["cargo", "kani", "--manifest-path", mp] + feat + [
        "--harness", harness_path, "--exact", "--target-dir", slot,
    ] + list(extra)
    return cmd, env


RE_SUMMARY = re.compile(r"\*\* (\d+) of (\d+) failed(?: \((.*?)\))?")
RE_COVER = re.compile(r"\*\* (\d+) of (\d+) cover properties satisfied")
RE_TIME = re.compile(r"Verification Time: ([0-9.]+)s")
RE_STEPS = re.compile(r"size of program expression: (\d+) steps")
RE_VCC = re.compile(r"Generated (\d+) VCC\(s\), (\d+) remaining after simplification")
RE_VARS = re.compile(r"(\d+) variables, (\d+) clauses")
RE_SYMEX = re.compile(r"Runtime Symex: ([0-9.]+)s")
RE_SOLVER = re.compile(r"Runtime Solver: ([0-9.]+)s")
RE_DECISION = re.compile(r"Runtime decision procedure: ([0-9.]+)s")


def parse_log(text):
    """Returns dict(status, failed=[(check, description, location)], covers..., stats...)
    status: 'pass' | 'fail' | 'noverdict'"""
    res = {
        "status": "noverdict", "reason": "", "failed": [], "checks_total": 0, "checks_failed": 0,
        "unreachable": 0, "covers_total": 0, "covers_sat": 0, "cover_details": [],
        "verification_time_s": None, "program_steps": None, "vccs": None, "vccs_remaining": None,
        "variables": None, "clauses": None, "symex_s": None, "solver_s": 0.0, "solver_calls": 0,
    }
    if "internal compiler error" in text or "error: internal" in text:
        res["reason"] = "Kani/rustc internal error"
        return res
    m = None
    for m in RE_SUMMARY.finditer(text):
        pass
    if m:
        res["checks_failed"] = int(m.group(1))
        res["checks_total"] = int(m.group(2))
        extra = m.group(3) or ""
        mu = re.search(r"(\d+) unreachable", extra)
        if mu:
            res["unreachable"] = int(mu.group(1))
    mc = None
    for mc in RE_COVER.finditer(text):
        pass
    if mc:
        res["covers_sat"], res["covers_total"] = int(mc.group(1)), int(mc.group(2))
    mt = RE_TIME.search(text)
    if mt:
        res["verification_time_s"] = float(mt.group(1))
    for key, rx in (("program_steps", RE_STEPS), ("symex_s", RE_SYMEX)):
        mm = rx.search(text)
        if mm:
            res[key] = float(mm.group(1)) if key.endswith("_s") else int(mm.group(1))
    mm = RE_VCC.search(text)
    if mm:
        res["vccs"], res["vccs_remaining"] = int(mm.group(1)), int(mm.group(2))
    mm = RE_VARS.search(text)
    if mm:
        res["variables"], res["clauses"] = int(mm.group(1)), int(mm.group(2))
    sol = RE_SOLVER.findall(text)
    res["solver_calls"] = len(sol)
    res["solver_s"] = round(sum(float(x) for x in sol), 3)
    # individual checks
    blocks = re.split(r"\nCheck \d+: ", text)
    for b in blocks[1:]:
        head = b.split("\n", 1)[0].strip()
        ms = re.search(r"- Status: (\w+)", b)
        md = re.search(r'- Description: "(.*?)"\n', b, re.S)
        ml = re.search(r"- Location: (.*)", b)
        st = ms.group(1) if ms else "?"
        desc = md.group(1) if md else ""
        loc = ml.group(1).strip() if ml else ""
        if ".cover." in head or st in ("SATISFIED", "UNSATISFIABLE", "UNREACHABLE") and "cover" in head:
            res["cover_details"].append({"check": head, "status": st, "description": desc})
        if st == "FAILURE":
            res["failed"].append({"check": head, "description": desc, "location": loc})
        elif st == "UNDETERMINED":
            pass
    if "VERIFICATION:- SUCCESSFUL" in text:
        res["status"] = "pass"
    elif "VERIFICATION:- FAILED" in text:
        if "Status: ERROR" in text or "CBMC failed" in text or "out of memory" in text.lower() or "std::bad_alloc" in text:
            res["status"] = "noverdict"
            res["reason"] = "CBMC error / out of memory"
        elif res["failed"]:
            res["status"] = "fail"
        elif res["covers_total"] and res["covers_sat"] < res["covers_total"] and res["checks_failed"] == 0:
            # Kani reports FAILED? (it does not for covers) - treat as pass with unsat covers
            res["status"] = "pass"
        else:
            res["status"] = "noverdict"
            res["reason"] = "FAILED without a failed check in the log"
    else:
        res["reason"] = "no VERIFICATION line (build error, timeout or crash)"
    return res


def run_harness(scratch, spec, logdir):
    """spec: dict(name, mod, cfg, timeout, mem_gb, extra). Returns parsed result dict."""
    cfg = spec["cfg"]
    slot = scratch.get_slot(cfg)
    path = spec["mod"] + "::" + spec["name"] if spec.get("mod") else spec["name"]
    cmd, env = kani_cmd(scratch, cfg, path, slot, spec.get("extra", ()))
    log = os.path.join(logdir, spec["name"] + "." + cfg + ".log")
    memkb = int(spec.get("mem_gb", 8)) * 1024 * 1024
    sh = "ulimit -v %d; exec timeout -k 10 %d %s" % (
        memkb, int(spec.get("timeout", 600)), " ".join("'" + c + "'" for c in cmd))
    t0 = time.time()
    with open(log, "w") as f:
        p = subprocess.run(["bash", "-c", sh], stdout=f, stderr=subprocess.STDOUT, env=env,
                           cwd=os.path.join(VERIF, "kani"))
    wall = time.time() - t0
    scratch.put_slot(cfg, slot)
    with open(log, errors="replace") as f:
        text = f.read()
    res = parse_log(text)
    res["wall_s"] = round(wall, 1)
    res["exit"] = p.returncode
    res["log"] = log
    if p.returncode == 124 or p.returncode == 137:
        res["status"] = "noverdict"
        res["reason"] = "timeout after %ds" % spec.get("timeout", 600)
    if res["status"] == "noverdict" and not res["reason"]:
        res["reason"] = "exit %d" % p.returncode
    if res["status"] == "noverdict":
        res["log_tail"] = text[-1500:]
    return res


def run_many(scratch, specs, logdir, max_mem_gb=48, max_par=None):
    """Memory-aware parallel scheduler."""
    max_par = max_par or int(os.environ.get("VERIF_JOBS", "14"))
    results = {}
    pending = sorted(specs, key=lambda s: -s.get("timeout", 600))
    cv = threading.Condition()
    state = {"mem": 0, "running": 0}

    def worker(spec):
        try:
            r = run_harness(scratch, spec, logdir)
        except Exception as e:  # noqa
            r = {"status": "noverdict", "reason": "runner exception: %r" % (e,), "failed": [],
                 "covers_total": 0, "covers_sat": 0, "checks_total": 0, "checks_failed": 0, "wall_s": 0}
        with cv:
            results[spec["key"]] = r
            state["mem"] -= spec.get("mem_gb", 8)
            state["running"] -= 1
            cv.notify_all()

    threads = []
    with cv:
        while pending:
            started = False
            for s in list(pending):
                need = s.get("mem_gb", 8)
                if state["running"] < max_par and (state["mem"] + need <= max_mem_gb or state["running"] == 0):
                    pending.remove(s)
                    state["mem"] += need
                    state["running"] += 1
                    t = threading.Thread(target=worker, args=(s,))
                    t.start()
                    threads.append(t)
                    started = True
            if pending and not started:
                cv.wait()
    for t in threads:
        t.join()
    return results
