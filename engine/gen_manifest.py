#!/usr/bin/env python3
"""Regenerate /verif/MANIFEST.json from engine/propmeta.json and the harness registry."""
import json, os, subprocess, sys
HERE = os.path.dirname(os.path.abspath(__file__))
sys.path.insert(0, HERE)
import registry
VERIF = os.path.dirname(HERE)
meta = json.load(open(os.path.join(HERE, "propmeta.json")))
props = [json.loads(l)["id"] for l in open(os.path.join(VERIF, "properties.jsonl"))]
specs = registry.all_specs()
na_path = os.path.join(HERE, "not_applicable.json")
na = json.load(open(na_path)) if os.path.exists(na_path) else []
na_ids = {x["property_id"] for x in na}
hook_commits = subprocess.run(["git", "-C", "/repo", "log", "--format=%h %s", "--grep=^verif hook"], capture_output=True, text=True).stdout.strip().split("\n")
checks = []
for p in props:
    if p in na_ids:
        continue
    have = [s for s in specs if p in s["props"]]
    if not have or p not in meta:
        na.append({"property_id": p, "reason": "no solver-based check built yet for this property"})
        continue
    m = meta[p]
    checks.append({
        "property_id": p,
        "quick_cmd": "./check %s --tier quick" % p,
        "thorough_cmd": "./check %s --tier thorough" % p,
        "evidence_file": "/verif/evidence/%s.json" % p,
        "replay_cmd_template": "./check %s --replay {path}" % p,
        "engine": "kani-cbmc" + ("+mir2smt" if m.get("e2") and os.path.exists(os.path.join(HERE, "mir2smt.py")) else ""),
        "level_claimed": {"category": "model_checking", "text": m["text"], "design_ref": "DESIGN.md section " + m.get("design_ref", "5")},
        "level_note": m["note"] + " Outside the bounds: " + m.get("outside", ""),
        "technique": m["technique"],
    })
man = {
    "version": 1,
    "setup_cmd": "./setup.sh",
    "hooks": {
        "guard": "almindor_mipidsi_verif",
        "enable": "RUSTFLAGS=\"--cfg almindor_mipidsi_verif [--cfg almindor_mipidsi_verif_ptr16|_smallcap|_incrate]\" cargo kani ... (set by engine/kanirun.py; MIPIDSI_VERIF_INCRATE=/verif/incrate for the in-crate proofs)",
        "baseline_off_cmd": "cd /repo && cargo test --workspace --no-fail-fast --offline",
        "source_commits": [c for c in hook_commits if c],
        "add_only": False,
    },
    "engines": [
        {"name": "kani-cbmc", "path": "/verif/kani (harness crate, path dependency on /repo) + /verif/incrate (step proofs included into src/batch.rs under the guard) + /verif/engine/kanirun.py",
         "serves_properties": [c["property_id"] for c in checks],
         "kind_free_text": "bounded model checking of the compiled crate: Kani 0.68 -> CBMC 6.11 -> CaDiCaL; symbolic inputs/configurations/fault indices, unwinding assertions on, cover witnesses against vacuity, concrete-playback replay"},
        {"name": "mir2smt", "path": "/verif/engine/mir2smt.py",
         "serves_properties": [p for p in props if meta.get(p, {}).get("e2")],
         "kind_free_text": "own encoder: nightly MIR dump of /repo -> SMT-LIB2 bit-vector queries with the generic FRAMEBUFFER_SIZE as a free variable, decided by z3 4.8.12 / z3 5.1.0 / cvc5 1.0 (additive to the Kani verdicts)"},
    ],
    "checks": checks,
    "not_applicable": na,
    "notes": "All checks are solver-based (bounded model checking / SMT). Hooks: H1 (NoResetPin hidden variant), H3 (include of out-of-tree step proofs), H4 (small batch capacities) only add lines; H2 rewrites the two attribute lines `#[cfg(target_pointer_width = \"16\")]` into `#[cfg(any(target_pointer_width = \"16\", almindor_mipidsi_verif_ptr16))]` (the only way to compile the 16-bit-pointer helper variants of C04 on this host), hence add_only=false. Exit codes: 0 held within bounds, 1 replayed violation, 2 no verdict. VERIF_SEED selects which instantiations of large families the quick tier runs.",
}
json.dump(man, open(os.path.join(VERIF, "MANIFEST.json"), "w"), indent=1)
print("checks:", [c["property_id"] for c in checks], "n/a:", [x["property_id"] for x in na])
