#!/usr/bin/env python3
"""./check <ID> [--tier quick|thorough] [--replay <path>]

exit 0: every required obligation was discharged by the solver on the current /repo tree
exit 1: a replayed counter-example that is not a listed known finding
        (prints `VIOLATION property=<ID> replay=<path>`)
exit 2: no verdict (tool failure, cap hit on a required harness, vacuous harness,
        counter-example that does not reproduce natively)
"""
import argparse, json, os, re, shutil, subprocess, sys, time

HERE = os.path.dirname(os.path.abspath(__file__))
sys.path.insert(0, HERE)
import kanirun, registry  # noqa: E402

VERIF = kanirun.VERIF
TAG = re.compile(r"\[(C\d\d|ORACLE)\]")


def load_kf():
    p = os.path.join(VERIF, "known_findings.json")
    if os.path.exists(p):
        return json.load(open(p))
    return {"open": [], "fixed": []}


def relevant_failures(prop, failed):
    """failures that count for this property: tagged with it, or untagged (panics, overflow,
    bounds, unwrap: 'never panics' is part of every property's reading)"""
    rel = []
    for f in failed:
        tags = TAG.findall(f["description"])
        if not tags or prop in tags or "ORACLE" in tags:
            rel.append(f)
    return rel


def is_unwind_failure(f):
    return "unwinding assertion" in f["description"]


# ------------------------------------------------------------------ replay

def make_playback_copy(scratch, spec):
    """scratch copy of the harness crate (and of the in-crate proof dir) for playback"""
    base = os.path.join(scratch.dir, "pb-%s-%s" % (spec["name"], spec["cfg"]))
    if os.path.exists(base):
        shutil.rmtree(base)
    os.makedirs(base)
    shutil.copytree(os.path.join(VERIF, "kani"), os.path.join(base, "kani"),
                    ignore=shutil.ignore_patterns("target"))
    if kanirun.REPO != "/repo":
        ct = os.path.join(base, "kani", "Cargo.toml")
        t = open(ct).read().replace('path = "/repo"', 'path = "%s"' % kanirun.REPO)
        open(ct, "w").write(t)
    shutil.copytree(os.path.join(VERIF, "incrate"), os.path.join(base, "incrate"))
    return base


def extract_tests(text):
    """unit tests printed by --concrete-playback=print; tests for cover witnesses are skipped"""
    tests = []
    for m in re.finditer(r"```\n(.*?)\n```", text, re.S):
        block = m.group(1)
        mt = re.search(r"#\[test\]\nfn (kani_concrete_playback_\w+)\(\)", block)
        if not mt:
            continue
        mk = re.search(r"/// Check for `(\w+)`", block)
        if mk and mk.group(1) == "cover":
            continue
        tests.append((mt.group(1), block))
    return tests


def run_native(scratch, spec, testname, testcode, profile="dev", full_output=False):
    """insert the generated unit test next to the harness in a scratch copy and run it natively.
    returns (reproduced: bool|None, output tail)"""
    base = make_playback_copy(scratch, spec)
    manifest, feat, cfgs = kanirun.CFGS[spec["cfg"]]
    env = dict(os.environ)
    env["RUSTFLAGS"] = " ".join("--cfg " + c for c in [kanirun.GUARD] + cfgs)
    env["CARGO_NET_OFFLINE"] = "true"
    env.pop("RUSTUP_TOOLCHAIN", None)
    if manifest == "kani":
        src = os.path.join(base, spec["file"])  # kani/src/xxx.rs
        mp = os.path.join(base, "kani", "Cargo.toml")
        env["MIPIDSI_VERIF_INCRATE"] = os.path.join(base, "incrate")
    else:
        src = os.path.join(base, spec["file"])  # incrate/batch_proofs.rs
        repo = os.path.join(base, "repo")
        shutil.copytree(kanirun.REPO, repo, ignore=shutil.ignore_patterns("target", ".git", "examples"))
        mp = os.path.join(repo, "Cargo.toml")
        env["MIPIDSI_VERIF_INCRATE"] = os.path.join(base, "incrate")
    if manifest == "kani":
        with open(src, "a") as f:
            f.write("\n" + testcode + "\n")
    else:
        # in-crate proofs live inside `mod proofs { .. }`: insert before the final closing brace
        t = open(src).read().rstrip()
        assert t.endswith("}")
        # mipidsi is #![no_std]: name std's Vec explicitly in the generated test
        tc = testcode.replace("Vec<Vec<u8>>", "std::vec::Vec<std::vec::Vec<u8>>").replace("vec![", "std::vec![")
        tc = re.sub(r"(fn kani_concrete_playback_\w+\(\) \{)", r"\1\n    extern crate std;", tc)
        open(src, "w").write(t[:-1] + "\n" + tc + "\n}\n")
    env["CARGO_TARGET_DIR"] = os.path.join(base, "target")
    if profile == "release":
        env["CARGO_PROFILE_DEV_OPT_LEVEL"] = "3"
        env["CARGO_PROFILE_DEV_OVERFLOW_CHECKS"] = "false"
        env["CARGO_PROFILE_DEV_DEBUG_ASSERTIONS"] = "false"
    cmd = ["cargo", "kani", "playback", "-Z", "concrete-playback", "--manifest-path", mp] + feat + ["--", testname]
    try:
        p = subprocess.run(["timeout", "-k", "5", "300"] + cmd, env=env, cwd=os.path.join(base, "kani"),
                           stdout=subprocess.PIPE, stderr=subprocess.STDOUT, text=True)
    except Exception as e:  # noqa
        return None, repr(e)
    out = p.stdout
    shutil.rmtree(base, ignore_errors=True)
    if p.returncode == 124:
        return True, "native replay did not terminate within 300 s (non-termination)\n" + out[-800:]
    if "Not enough det vals found" in out:
        # the run got past the point where the recorded counter-example failed and asked for
        # more symbolic inputs than were recorded: the recorded failure no longer occurs
        return False, "the recorded failure no longer occurs (execution continues past the recorded inputs)"
    if re.search(r"test result: FAILED|panicked at", out):
        return True, (out if full_output else out[-1500:])
    if re.search(r"test result: ok\. 1 passed", out):
        return False, out[-800:]
    return None, out[-1500:]


def replay_failure(scratch, spec, logdir):
    """re-run the failed harness with concrete playback, store the test, run it natively"""
    slot = scratch.get_slot(spec["cfg"])
    path = spec["mod"] + "::" + spec["name"]
    cmd, env = kanirun.kani_cmd(scratch, spec["cfg"], path, slot,
                                list(spec.get("extra", ())) + ["-Z", "concrete-playback", "--concrete-playback=print"])
    log = os.path.join(logdir, spec["name"] + "." + spec["cfg"] + ".playback.log")
    sh = "ulimit -v %d; exec timeout -k 10 %d %s" % (
        max(24, int(spec.get("mem_gb", 8)) * 3) * 1024 * 1024, int(spec.get("timeout", 600)) * 2,
        " ".join("'" + c + "'" for c in cmd))
    with open(log, "w") as f:
        subprocess.run(["bash", "-c", sh], stdout=f, stderr=subprocess.STDOUT, env=env, cwd=os.path.join(VERIF, "kani"))
    scratch.put_slot(spec["cfg"], slot)
    text = open(log, errors="replace").read()
    tests = extract_tests(text)
    if not tests:
        return None, None, "Kani produced no concrete playback test"
    return tests, text, None


def native_search(scratch, spec):
    """Fallback when Kani could not extract a trace within its caps (very large harnesses): the
    harness is run natively over its small, finite input domain (annotation native_domain) until
    one input makes it fail; that input is then turned into an ordinary concrete-playback test.
    The solver has already shown that a failing input exists; this only finds one to replay."""
    dom = spec.get("native_domain")
    if not dom:
        return None
    parts = []
    for item in dom.split(","):
        ty, rng = item.split(":")
        lo, hi = rng.split("..")
        parts.append((ty, int(lo), int(hi)))
    loops, vals, closes = "", [], ""
    for i, (ty, lo, hi) in enumerate(parts):
        loops += "    " * (i + 1) + "for v%d in %d..%d%s {\n" % (i, lo, hi, ty)
        vals.append("v%d.to_le_bytes().to_vec()" % i)
        closes = "    " * (i + 1) + "}\n" + closes
    ind = "    " * (len(parts) + 1)
    name = "kani_native_search_" + spec["name"]
    code = (
        "#[test]\nfn %s() {\n    extern crate std;\n    std::panic::set_hook(std::boxed::Box::new(|_| {}));\n    let mut found: Option<std::string::String> = None;\n" % name
        + loops
        + ind + "if found.is_some() { continue; }\n"
        + ind + "let vals: std::vec::Vec<std::vec::Vec<u8>> = std::vec![%s];\n" % ", ".join(vals)
        + ind + "let r = std::panic::catch_unwind(|| kani::concrete_playback_run(vals, %s));\n" % spec["name"]
        + ind + "if let Err(e) = r {\n"
        + ind + "    let msg = if let Some(s) = e.downcast_ref::<&str>() { std::string::String::from(*s) } else if let Some(s) = e.downcast_ref::<std::string::String>() { s.clone() } else { std::string::String::new() };\n"
        + ind + "    if !msg.contains(\"kani::assume\") && !msg.contains(\"det vals\") {\n"
        + ind + "        found = Some(std::format!(\"FOUND %s\", %s));\n" % (" ".join(["{}"] * len(parts)), ", ".join("v%d" % i for i in range(len(parts))))
        + ind + "    }\n"
        + ind + "}\n"
        + closes
        + "    if let Some(f) = found { std::println!(\"{}\", f); panic!(\"{}\", f); }\n}\n"
    )
    rep, out = run_native(scratch, spec, name, code, full_output=True)
    m = re.search(r"FOUND ((?:-?\d+ ?)+)", out or "")
    if not m:
        return None
    found = [int(x) for x in m.group(1).split()]
    lines = []
    for (ty, _lo, _hi), v in zip(parts, found):
        width = {"i8": 1, "u8": 1, "i16": 2, "u16": 2, "i32": 4, "u32": 4, "i64": 8, "u64": 8, "usize": 8}[ty]
        b = (v % (1 << (8 * width))).to_bytes(width, "little")
        lines.append("        // %d\n        vec![%s]," % (v, ", ".join(str(x) for x in b)))
    tn = "kani_concrete_playback_%s_native_search" % spec["name"]
    tc = ("/// Test for harness `%s`, input found by native enumeration of the harness's finite input domain\n"
          "/// (%s) after the solver had reported the failure\n#[test]\nfn %s() {\n    let concrete_vals: Vec<Vec<u8>> = vec![\n%s\n    ];\n"
          "    kani::concrete_playback_run(concrete_vals, %s);\n}\n") % (spec["name"], dom, tn, "\n".join(lines), spec["name"])
    return [(tn, tc)]


def store_replay(prop, spec, testname, testcode, what):
    d = os.path.join(os.environ.get("VERIF_OUT", VERIF), "replays", prop)
    os.makedirs(d, exist_ok=True)
    p = os.path.join(d, "%s.%s.rs" % (spec["name"], spec["cfg"]))
    with open(p, "w") as f:
        f.write("// replay for property %s\n// harness: %s\n// module: %s\n// cfg: %s\n// file: %s\n// test: %s\n// failed: %s\n"
                % (prop, spec["name"], spec["mod"], spec["cfg"], spec["file"], testname, what.replace("\n", " ")))
        f.write(testcode + "\n")
    return p


def do_replay_file(prop, path):
    if path.endswith(".json"):
        import replay_e2
        scratch = kanirun.Scratch()
        try:
            rc = replay_e2.replay_file(prop, path, scratch)
        finally:
            scratch.cleanup()
        if rc == 1:
            print("VIOLATION property=%s replay=%s" % (prop, path))
        return rc
    hdr = {}
    code = []
    for ln in open(path):
        m = re.match(r"// (\w+): (.*)", ln)
        if m and not code:
            hdr[m.group(1)] = m.group(2).strip()
        elif not ln.startswith("//") or code:
            code.append(ln)
    spec = {"name": hdr["harness"], "mod": hdr["module"], "cfg": hdr["cfg"], "file": hdr["file"]}
    scratch = kanirun.Scratch()
    try:
        rep, out = run_native(scratch, spec, hdr["test"], "".join(code))
    finally:
        scratch.cleanup()
    print(out)
    if rep:
        print("VIOLATION property=%s replay=%s" % (prop, path))
        return 1
    if rep is False:
        print("replay passes on the current tree")
        return 0
    return 2


# ------------------------------------------------------------------ main

def main():
    ap = argparse.ArgumentParser()
    ap.add_argument("prop")
    ap.add_argument("--tier", default=os.environ.get("VERIF_TIER", "quick"), choices=["quick", "thorough"])
    ap.add_argument("--replay")
    ap.add_argument("--only", help="regex on harness names (development aid)")
    ap.add_argument("--keep-logs", action="store_true")
    a = ap.parse_args()
    prop = a.prop
    seed = int(os.environ.get("VERIF_SEED", "0") or 0)
    if a.replay:
        sys.exit(do_replay_file(prop, a.replay))

    t0 = time.time()
    specs = registry.select(prop, a.tier, seed)
    if a.only:
        specs = [s for s in specs if re.search(a.only, s["name"])]
    meta = json.load(open(os.path.join(HERE, "propmeta.json"))).get(prop, {})
    kf = load_kf()
    scratch = kanirun.Scratch()
    logdir = os.path.join(scratch.dir, "logs")
    os.makedirs(logdir)
    violations, inconclusive, known, notes = [], [], [], []
    e2 = None
    try:
        # E2 (mir2smt) obligations, additive; runs concurrently with the Kani harnesses
        e2box = {}
        e2thread = None
        if meta.get("e2") and os.path.exists(os.path.join(HERE, "mir2smt.py")):
            import threading

            def run_e2():
                try:
                    import mir2smt
                    e2box["r"] = mir2smt.run_for(prop, scratch, seed, a.tier)
                except Exception as ex:  # noqa
                    e2box["r"] = {"status": "inconclusive", "reason": "mir2smt exception: %r" % (ex,), "obligations": []}
            e2thread = threading.Thread(target=run_e2)
            e2thread.start()
        results = kanirun.run_many(scratch, specs, logdir,
                                   max_mem_gb=int(os.environ.get("VERIF_MEM_GB", "48")))
        if e2thread:
            e2thread.join()
            e2 = e2box.get("r")
        for s in specs:
            r = results[s["key"]]
            s["result"] = r
            st = r["status"]
            if s["kf"]:
                entry = next((k for k in kf.get("open", []) if k["property"] == prop and k["harness"] == s["name"]), None)
                if st == "fail":
                    if entry:
                        known.append("KNOWN-FINDING: property=%s %s" % (prop, entry["what"]))
                    else:
                        violations.append((s, r, "known-finding harness fails but the finding is not listed"))
                elif st == "noverdict" and s["required"]:
                    inconclusive.append("%s: %s" % (s["key"], r["reason"]))
                continue
            if s["expect"] == "fail":
                if st != "fail":
                    inconclusive.append("%s: vacuity twin did not fail (%s)" % (s["key"], st))
                continue
            if st == "noverdict":
                tail = r.get("log_tail", "")
                if s["cfg"].startswith("incrate") and ("could not compile" in tail or "error[E" in tail):
                    # the step proofs name private items of src/batch.rs; if a refactor renamed
                    # them the proofs no longer compile and abstain (the black-box harnesses remain)
                    notes.append("%s: in-crate step proof does not compile against this tree: abstains" % s["key"])
                    continue
                (inconclusive if s["required"] else notes).append("%s: no verdict (%s)" % (s["key"], r["reason"]))
                continue
            if st == "fail":
                rel = relevant_failures(prop, r["failed"])
                if not rel:
                    notes.append("%s: %d failed check(s) attributed to other properties: %s" % (
                        s["key"], len(r["failed"]), "; ".join(sorted(set(f["description"] for f in r["failed"]))[:4])))
                else:
                    violations.append((s, r, "; ".join(sorted(set(f["description"] for f in rel))[:6])))
                continue
            # pass
            if r["covers_total"] and r["covers_sat"] < r["covers_total"]:
                inconclusive.append("%s: %d of %d cover witnesses unsatisfied (vacuous region)" % (
                    s["key"], r["covers_total"] - r["covers_sat"], r["covers_total"]))

        # replay candidate violations: cheapest first; one native reproduction confirms the
        # violation, the other failing harnesses are listed without being replayed
        confirmed = []
        unreplayed = []
        violations.sort(key=lambda v: v[1].get("wall_s", 0))
        attempts = 0
        for (s, r, what) in violations:
            if confirmed or attempts >= 3:
                unreplayed.append((s, what))
                continue
            attempts += 1
            tests, err = None, "no test"
            if s.get("native_domain"):
                # very large harness with a tiny input domain: extracting a trace would repeat
                # the whole (expensive) run, enumerating the domain natively takes seconds
                tests = native_search(scratch, s)
                if tests:
                    err = None
                    notes.append("%s: the failing input was found by native enumeration of the harness's input domain %s" % (s["key"], s["native_domain"]))
            if not tests:
                tests, text, err = replay_failure(scratch, s, logdir)
            if err:
                inconclusive.append("%s: failed (%s) but %s" % (s["key"], what, err))
                continue
            reproduced = None
            used = None
            outs = []
            for (tn, tc) in tests[:4]:
                rep, out = run_native(scratch, s, tn, tc)
                outs.append(out[-400:])
                if rep:
                    reproduced, used = True, (tn, tc)
                    break
                if rep is False and reproduced is None:
                    reproduced = False
            if reproduced:
                rel_rep, _ = run_native(scratch, s, used[0], used[1], profile="release")
                path = store_replay(prop, s, used[0], used[1], what)
                confirmed.append((s, what, path, rel_rep))
            else:
                inconclusive.append("%s: solver counter-example (%s) does not reproduce natively -> machinery suspect: %s" % (
                    s["key"], what, " | ".join(outs)[-600:]))
        if confirmed:
            for (s, what) in unreplayed:
                notes.append("%s: also fails (%s); not replayed separately" % (s["key"], what))
        else:
            for (s, what) in unreplayed:
                inconclusive.append("%s: failed (%s); not replayed" % (s["key"], what))
        if e2:
            for ob in e2.get("obligations", []):
                if ob.get("verdict") == "violated" and ob.get("replayed"):
                    confirmed.append(({"key": "E2:" + ob["name"], "name": ob["name"]}, ob.get("what", ""), ob.get("replay_path", ""), None))

        wall = time.time() - t0
        write_evidence(prop, a.tier, seed, specs, e2, meta, wall, len(confirmed), inconclusive, notes, known)
        for k in known:
            print(k)
        for n in notes:
            print("NOTE:", n)
        for (s, what, path, rel) in confirmed:
            print("violated: %s :: %s (release-profile replay %s)" % (s["key"], what, {True: "also fails", False: "passes", None: "n/a"}[rel]))
            print("VIOLATION property=%s replay=%s" % (prop, path))
        for i in inconclusive:
            print("INCONCLUSIVE:", i)
        npass = sum(1 for s in specs if s.get("result", {}).get("status") == "pass")
        print("%s %s: %d harnesses, %d passed, %d violations, %d inconclusive, %.0fs" % (
            prop, a.tier, len(specs), npass, len(confirmed), len(inconclusive), wall))
        if a.keep_logs:
            dst = os.path.join("/root/scratch/logs", prop)
            shutil.rmtree(dst, ignore_errors=True)
            shutil.copytree(logdir, dst)
        if confirmed:
            sys.exit(1)
        if inconclusive or not specs or npass == 0:
            sys.exit(2)
        sys.exit(0)
    finally:
        scratch.cleanup()


def write_evidence(prop, tier, seed, specs, e2, meta, wall, nviol, inconclusive, notes, known):
    outdir = os.environ.get("VERIF_OUT", VERIF)
    os.makedirs(os.path.join(outdir, "evidence"), exist_ok=True)
    hs = []
    evaluations = 0
    nontrivial = 0
    solver_s = 0.0
    functions = set(meta.get("functions", []))
    for s in specs:
        r = s.get("result", {})
        evaluations += r.get("checks_total", 0) or 0
        solver_s += r.get("solver_s", 0) or 0
        decided = r.get("status") in ("pass", "fail")
        if decided:
            # every satisfied kani::cover! is a distinct, named, interesting region that the
            # solver actually reached in this harness
            nontrivial += r.get("covers_sat", 0) or 0
        hs.append({
            "harness": s["name"], "config": s["cfg"], "instantiation": s["inst"], "bounds": s["bounds"],
            "unwind": s["unwind"], "expect": s["expect"], "known_finding_region": s["kf"],
            "verdict": r.get("status"), "reason": r.get("reason", ""),
            "cbmc_checks": r.get("checks_total"), "cbmc_failed": r.get("checks_failed"),
            "cbmc_unreachable": r.get("unreachable"),
            "covers": "%s/%s" % (r.get("covers_sat"), r.get("covers_total")),
            "program_steps": r.get("program_steps"), "vccs": r.get("vccs"),
            "variables": r.get("variables"), "clauses": r.get("clauses"),
            "symex_s": r.get("symex_s"), "solver_s": r.get("solver_s"), "solver_calls": r.get("solver_calls"),
            "verification_time_s": r.get("verification_time_s"), "wall_s": r.get("wall_s"),
            "failed_checks": [f["description"] for f in r.get("failed", [])][:8],
        })
    e2_ob = (e2 or {}).get("obligations", [])
    evaluations += len(e2_ob)
    nontrivial += sum(1 for o in e2_ob if o.get("verdict") == "holds")
    ev = {
        "property_id": prop, "tier": tier, "seed": seed, "level": "model_checking",
        "coverage": {
            "evaluations": evaluations,
            "distinct_nontrivial": nontrivial,
            "rule": "evaluations = CBMC properties (assertions, overflow/bounds/unwinding checks, cover witnesses) decided by the SAT "
                    "solver over all inputs within the stated bounds, summed over harnesses, plus SMT obligations of the MIR encoder; "
                    "distinct_nontrivial = distinct kani::cover! witnesses (named interesting regions such as 'clipped top-left, drawn' or "
                    "'fault after a few commands') that the solver showed reachable in harnesses that reached a verdict, plus SMT "
                    "obligations answered unsat by >= 2 solvers; a harness with an unreachable witness is reported as vacuous (exit 2)",
            "samples": hs[:40],
            "harnesses_run": len(specs),
            "harnesses_passed": sum(1 for h in hs if h["verdict"] == "pass"),
            "technique": "bounded model checking of the compiled crate (Kani 0.68 / CBMC 6.11 / CaDiCaL)"
                         + (" + MIR->SMT-LIB encoding (z3 4.8.12, z3 5.1.0, cvc5 1.0)" if e2 else ""),
            "functions_encoded": sorted(functions),
            "solver_seconds": round(solver_s, 2),
            "e2": e2,
            "inconclusive": inconclusive, "notes": notes, "known_findings_reported": known,
            "outside_bounds": meta.get("outside", ""),
        },
        "assumptions": meta.get("assumptions", []) + [
            "environment models of /verif/kani/src/env.rs (MIPI-DCS decode convention, fault = Err return, delay waits exactly as asked)",
            "Kani models the dev profile (overflow-checks on, panic=abort); unwinding assertions are on",
        ],
        "wall_s": round(wall, 1),
        "violations": nviol,
    }
    with open(os.path.join(outdir, "evidence", prop + ".json"), "w") as f:
        json.dump(ev, f, indent=1)


if __name__ == "__main__":
    main()
