"""Harness registry: read from `//@` annotation lines in the harness sources, so the Rust
sources are the single source of truth.

    //@ props=C01,C08 tier=quick cfg=main,nobatch timeout=300 mem=4 pick=setpx:3 \
    //@   inst="VModel<Rgb565,240,320> / u8 / Serial4Line" bounds="loop-free; ..."
    h!(c01_set_pixel_v240x320, 3, ...);          (or  #[kani::proof] ... fn name())

keys: props (required), tier (quick|thorough, default quick), cfg (comma list, default main),
timeout (s), mem (GB), required (yes|no, default yes in quick / no in thorough), expect (pass|fail),
kf (known-finding region id), pick (group:k -> quick tier runs only k seed-chosen members of the group),
inst, bounds, extra (extra kani flags, space separated in quotes),
native_domain ("i32:0..32,i32:0..32": the harness's kani::any() calls and their small finite ranges; lets the
engine confirm a failure natively by enumerating that domain when Kani's own trace extraction hits its caps)
"""
import os, re, glob, random, shlex

VERIF = os.path.dirname(os.path.dirname(os.path.abspath(__file__)))

RE_H = re.compile(r"^\s*h!\(\s*([A-Za-z0-9_]+)\s*,\s*(\d+)")
RE_FN = re.compile(r"^\s*(?:pub\s+)?fn\s+([A-Za-z0-9_]+)\s*\(")


def _parse_file(path, modname, incrate):
    specs = []
    ann = None
    lines = open(path).read().split("\n")
    i = 0
    pending_unwind = None
    while i < len(lines):
        ln = lines[i]
        s = ln.strip()
        if s.startswith("//@"):
            ann = (ann + " " if ann else "") + s[3:].strip().rstrip("\\")
        elif ann is not None:
            m = RE_H.match(ln)
            name = unwind = None
            if m:
                name, unwind = m.group(1), int(m.group(2))
            else:
                mu = re.search(r"kani::unwind\((\d+)\)", ln)
                if mu:
                    pending_unwind = int(mu.group(1))
                mf = RE_FN.match(ln)
                if mf:
                    name, unwind = mf.group(1), pending_unwind
                    pending_unwind = None
            if name:
                kv = {}
                for tok in shlex.split(ann):
                    if "=" in tok:
                        k, v = tok.split("=", 1)
                        kv[k] = v
                ann = None
                tier = kv.get("tier", "quick")
                cfgs = kv.get("cfg", "incrate" if incrate else "main").split(",")
                for cfg in cfgs:
                    specs.append({
                        "name": name,
                        "mod": ("batch::verif_incrate::proofs" if incrate else modname),
                        "cfg": cfg,
                        "key": name + "@" + cfg,
                        "props": kv.get("props", "").split(","),
                        "tier": tier,
                        "timeout": int(kv.get("timeout", 600)),
                        "mem_gb": int(kv.get("mem", 6)),
                        "required": kv.get("required", "yes" if tier == "quick" else "no") == "yes",
                        "expect": kv.get("expect", "pass"),
                        "kf": kv.get("kf"),
                        "pick": kv.get("pick"),
                        "inst": kv.get("inst", ""),
                        "bounds": kv.get("bounds", ""),
                        "unwind": unwind,
                        "extra": shlex.split(kv.get("extra", "")),
                        "native_domain": kv.get("native_domain"),
                        "file": os.path.relpath(path, VERIF),
                    })
        i += 1
    return specs


def all_specs():
    specs = []
    for p in sorted(glob.glob(os.path.join(VERIF, "kani", "src", "*.rs"))):
        mod = os.path.basename(p)[:-3]
        if mod in ("lib",):
            continue
        specs += _parse_file(p, mod, False)
    for p in sorted(glob.glob(os.path.join(VERIF, "incrate", "*.rs"))):
        specs += _parse_file(p, None, True)
    return specs


def select(prop, tier, seed):
    specs = [s for s in all_specs() if prop in s["props"]]
    if tier == "quick":
        specs = [s for s in specs if s["tier"] == "quick"]
        # seed-chosen subsets of instantiation groups
        groups = {}
        for s in specs:
            if s["pick"]:
                # pick=group:k[@P1+P2]: the restriction applies only when checking P1 or P2
                pk, _, only = s["pick"].partition("@")
                if only and prop not in only.split("+"):
                    continue
                g, k = pk.split(":")
                groups.setdefault((g, int(k)), []).append(s)
        drop = set()
        for (g, k), members in groups.items():
            names = sorted(set(m["name"] for m in members))
            rnd = random.Random("%s/%s/%d" % (prop, g, seed))
            keep = set(rnd.sample(names, min(k, len(names))))
            for m in members:
                if m["name"] not in keep:
                    drop.add(m["key"])
        specs = [s for s in specs if s["key"] not in drop]
    return specs
