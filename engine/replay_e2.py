"""Translator validation and replay of E2 candidates against the natively compiled crate.

* validation (every run): concrete vectors are pushed through (a) the SMT encoding (the solver
  evaluates the path conditions and output terms under the concrete inputs) and (b) the real
  mipidsi code compiled natively (e2native); any disagreement disables E2 for the run.
* replay: a `sat` model of a negated obligation is run through the real code and judged by
  an independent Python oracle; only what the real code gets wrong is a violation.
"""
import json, os, random, re, shutil, subprocess

HERE = os.path.dirname(os.path.abspath(__file__))
VERIF = os.path.dirname(HERE)

FIXED_SIZES = [(1, 1), (240, 320), (320, 240), (320, 480), (132, 162), (65535, 65535), (3, 2), (1, 65535), (65535, 1), (240, 536), (128, 160)]


# ------------------------------------------------------------------ independent oracles

def expected_cell(rot, mir, w, h, ox, oy, x, y):
    px, py = [(x, y), (w - 1 - y, x), (w - 1 - x, h - 1 - y), (y, h - 1 - x)][rot]
    if mir:
        px = w - 1 - px
    return px + ox, py + oy


def decode_cell(fw, fh, mad, col, row):
    mv, mx, my = mad & 0x20, mad & 0x40, mad & 0x80
    a, b = (row, col) if mv else (col, row)
    return (fw - 1 - a if mx else a), (fh - 1 - b if my else b)


def init_fits(fw, fh, w, h, ox, oy):
    return w >= 1 and h >= 1 and w <= fw and h <= fh and ox + w <= fw and oy + h <= fh


def expected_madctl(co, rot, mir, rv, rh):
    my, mx, mv = [(0, 0, 0), (0, 1, 1), (1, 1, 0), (1, 0, 1)][rot]
    mx ^= 1 if mir else 0
    return my << 7 | mx << 6 | mv << 5 | rv << 4 | co << 3 | rh << 2


def judge(kind, v, out):
    """True if the real code's output `out` for input vector `v` satisfies the property"""
    t = out.split()
    if t[0] == "panic":
        return False, "the real code panics"
    if kind == "saw":
        fw, fh, w, h, ox, oy, rot, mir, sx, sy, ex, ey = v[:12]
        if t[0] != "ok":
            return (t[0] == "init-err"), "native: " + out
        sc, ec, sp, ep, mad = (int(z) for z in t[1:6])
        if sc > ec or sp > ep:
            return False, "window start > end"
        lim_c, lim_r = (fh, fw) if mad & 0x20 else (fw, fh)
        if ec >= lim_c or ep >= lim_r:
            return False, "window end outside the framebuffer"
        if ec - sc != ex - sx or ep - sp != ey - sy:
            return False, "window size differs from the rectangle"
        for (x, y) in [(sx, sy), (ex, ey), (sx, ey), (ex, sy)] + ([(v[12], v[13])] if len(v) > 13 else []):
            got = decode_cell(fw, fh, mad, sc + (x - sx), sp + (y - sy))
            if got != expected_cell(rot, mir, w, h, ox, oy, x, y):
                return False, "point (%d,%d) decodes to %r, expected %r" % (x, y, got, expected_cell(rot, mir, w, h, ox, oy, x, y))
        return True, ""
    if kind == "init":
        fw, fh, w, h, ox, oy = v[:6]
        fits = init_fits(fw, fh, w, h, ox, oy)
        sizebad = w == 0 or h == 0 or w > fw or h > fh
        if t[0] == "accept":
            return fits, "accepted a window that does not fit"
        if t[0] in ("size", "offset"):
            if fits:
                return False, "rejected a window that fits"
            if (t[0] == "size") != sizebad:
                return False, "wrong error kind " + t[0]
            if int(t[1]) != 0:
                return False, "hardware touched before rejecting"
            return True, ""
        return False, "native: " + out
    if kind == "scroll":
        fw, fh, top, bottom = v[:4]
        if t[0] != "ok":
            return False, "native: " + out
        tfa, vsa, bfa = (int(z) for z in t[1:4])
        if tfa + vsa + bfa != fh:
            return False, "TFA+VSA+BFA = %d, rows = %d" % (tfa + vsa + bfa, fh)
        if top + bottom <= fh and (tfa != top or bfa != bottom):
            return False, "fixed areas not passed through"
        return True, ""
    if kind == "madctl":
        which = v[0]
        a, b = v[1:6], v[6:11]
        comb = {0: b, 1: [a[0], b[1], b[2], a[3], a[4]], 2: [b[0], a[1], a[2], a[3], a[4]], 3: [a[0], a[1], a[2], b[3], b[4]]}[which]
        return int(t[1]) == expected_madctl(*comb), "byte %s, expected %d" % (t[1], expected_madctl(*comb))
    if kind == "orient":
        rot, mir, which, by = v[:4]
        if t[0] != "ok":
            return False, "native: " + out
        r, m = int(t[1]), int(t[2])
        if which == 0:
            return (r, m) == ((rot + by) % 4, mir), "rotate(%d) of (%d,%d) gives (%d,%d)" % (by, rot, mir, r, m)
        if which in (1, 2):
            return m == 1 - mir, "a flip must toggle the mirror flag"
        if which in (3, 4):
            return (r, m) == (rot, mir), "two equal flips of (%d,%d) give (%d,%d)" % (rot, mir, r, m)
        return (r, m) == ((rot + 2) % 4, mir), "flip_h then flip_v of (%d,%d) gives (%d,%d), expected a half turn" % (rot, mir, r, m)
    if kind == "deg":
        a = v[0]
        if t[0] == "ok":
            return (a - int(t[1])) % 360 == 0 and int(t[1]) in (0, 90, 180, 270), "Ok(%s) for angle %d" % (t[1], a)
        return a % 90 != 0, "Err for the multiple of 90 %d" % a
    return True, ""


# ------------------------------------------------------------------ native side

class Native:
    def __init__(self, scratch_dir, sizes):
        self.dir = os.path.join(scratch_dir, "e2native")
        if os.path.exists(self.dir):
            shutil.rmtree(self.dir)
        shutil.copytree(os.path.join(VERIF, "e2native"), self.dir, ignore=shutil.ignore_patterns("target"))
        sizes = sorted(set(sizes))
        arms = "\n".join("        (%d, %d) => match cmd { \"saw\" => saw::<%d, %d>(v), \"init\" => init::<%d, %d>(v), _ => scroll::<%d, %d>(v) }," % (a, b, a, b, a, b, a, b) for (a, b) in sizes)
        disp = "fn dispatch(cmd: &str, v: &[i64]) -> String {\n    match (v[0], v[1]) {\n%s\n        _ => \"nosize\".into(),\n    }\n}\n" % arms
        repo = os.environ.get("VERIF_REPO", "/repo")
        if repo != "/repo":
            ct = os.path.join(self.dir, "Cargo.toml")
            open(ct, "w").write(open(ct).read().replace('path = "/repo"', 'path = "%s"' % repo))
        p = os.path.join(self.dir, "src", "main.rs")
        s = open(p).read().replace("/*DISPATCH*/", disp)
        open(p, "w").write(s)
        env = dict(os.environ)
        env["CARGO_NET_OFFLINE"] = "true"
        env.pop("RUSTFLAGS", None)
        r = subprocess.run(["cargo", "build", "--offline", "--manifest-path", os.path.join(self.dir, "Cargo.toml"),
                            "--target-dir", os.path.join(scratch_dir, "e2native-tgt")], capture_output=True, text=True, env=env)
        self.bin = os.path.join(scratch_dir, "e2native-tgt", "debug", "e2native")
        self.ok = r.returncode == 0 and os.path.exists(self.bin)
        self.err = r.stderr[-600:]

    def run(self, lines):
        r = subprocess.run([self.bin], input="\n".join(lines) + "\n", capture_output=True, text=True, timeout=120)
        return r.stdout.strip().split("\n")


# ------------------------------------------------------------------ vectors

def gen_vectors(kind, rnd, n, sizes):
    vs = []
    edge16 = [0, 1, 2, 255, 256, 32767, 32768, 65534, 65535]
    for i in range(n):
        fw, fh = rnd.choice(sizes)
        if kind == "saw":
            w = rnd.randint(1, fw)
            h = rnd.randint(1, fh)
            ox = rnd.choice([0, fw - w, rnd.randint(0, fw - w)])
            oy = rnd.choice([0, fh - h, rnd.randint(0, fh - h)])
            rot = rnd.randint(0, 3)
            mir = rnd.randint(0, 1)
            lw, lh = (h, w) if rot in (1, 3) else (w, h)
            sx = rnd.randint(0, lw - 1)
            ex = rnd.choice([sx, lw - 1, rnd.randint(sx, lw - 1)])
            sy = rnd.randint(0, lh - 1)
            ey = rnd.choice([sy, lh - 1, rnd.randint(sy, lh - 1)])
            vs.append([fw, fh, w, h, ox, oy, rot, mir, sx, sy, ex, ey])
        elif kind == "init":
            pick = lambda m: rnd.choice(edge16 + [m, m - 1, m + 1, rnd.randint(0, 65535)]) % 65536
            vs.append([fw, fh, pick(fw), pick(fh), pick(fw) if rnd.random() < 0.5 else rnd.randint(0, 3), pick(fh) if rnd.random() < 0.5 else 0])
        elif kind == "scroll":
            pick = lambda: rnd.choice(edge16 + [fh, fh - 1, fh // 2, rnd.randint(0, 65535)]) % 65536
            vs.append([fw, fh, pick(), pick()])
        elif kind == "madctl":
            vs.append([i % 4] + [rnd.randint(0, 1), rnd.randint(0, 3), rnd.randint(0, 1), rnd.randint(0, 1), rnd.randint(0, 1)] * 1
                      + [rnd.randint(0, 1), rnd.randint(0, 3), rnd.randint(0, 1), rnd.randint(0, 1), rnd.randint(0, 1)])
        elif kind == "deg":
            base = rnd.choice([0, 90, 180, 270, 360, -90, -360, 450, 1, -1, 89, 271, 2949120, 2949210, -2147483648, 2147483647, -2147483610, rnd.randint(-2**31, 2**31 - 1)])
            vs.append([base])
    if kind == "deg":
        vs += [[a] for a in range(-720, 721, 90)] + [[1], [-1], [-2147483648], [2147483647]]  # the repo's own test inputs
    if kind == "madctl":
        vs += [[1, 1, 3, 0, 1, 1, 0, 0, 0, 0, 0]]  # chain of the repo's madctl_bit_operations test
    return vs


def bvlit(val, term_is_bool, width):
    if term_is_bool:
        return "true" if val else "false"
    return "(_ bv%d %d)" % (val % (1 << width), width)


def eval_encoding(z3, tv, v, widths, family=None):
    """evaluate the encoding on the concrete input vector; returns outcome (list of ints or tag) or None"""
    ins = tv["inputs"]
    eqs = list(tv.get("pre", []))
    for name, val, w in zip(ins, v, widths):
        eqs.append("(= %s %s)" % (name, bvlit(val, w == 0, w)))
    paths = tv["paths"] if family is None else tv["families"][family]
    hits = []
    for pc, out in paths:
        if isinstance(out, str):
            r, _ = z3.check(tv["decls"], eqs + pc, 20)
            if r == "sat":
                hits.append(out)
        else:
            decls = list(tv["decls"]) + ["(declare-const tvout%d (_ BitVec %d))" % (i, w) for i, (w, _t) in enumerate(out)]
            outeq = ["(= tvout%d %s)" % (i, t) for i, (_w, t) in enumerate(out)]
            r, m = z3.check(decls, eqs + pc + outeq, 20, get=["tvout%d" % i for i in range(len(out))])
            if r == "sat":
                hits.append([m.get("tvout%d" % i) for i in range(len(out))])
    if len(hits) != 1:
        return ("ambiguous", len(hits))
    return hits[0]


KIND_OF_PROP = {"C01": ["saw"], "C08": ["saw"], "C09": ["init"], "C16": ["scroll"], "C14": ["madctl"], "C15": ["deg"]}
WIDTHS = {"saw": [16] * 6 + [8, 0] + [16] * 4, "init": [16] * 6, "scroll": [16] * 4, "madctl": [8, 8, 0, 8, 8, 8, 8, 0, 8, 8], "deg": [32]}
FAMILY = {0: "new", 1: "with_orientation", 2: "with_color_order", 3: "with_refresh_order"}


def cand_vector(kind, ob, tv):
    """input vector of a candidate from the solver model"""
    m = ob.get("model") or {}
    names = list(tv["inputs"]) + list(tv.get("extra", []))
    v = []
    for nme in names:
        if nme not in m:
            return None
        val = m[nme]
        v.append(int(val) if not isinstance(val, bool) else int(val))
    if kind == "deg" and v[0] >= 2**31:
        v[0] -= 2**32
    if kind == "madctl":
        fam = [k for k, f in FAMILY.items() if "/" + f + "/" in ob["name"]]
        v = [fam[0] if fam else 0] + v
    return v


def validate_and_replay(prop, scratch, seed, E, cands):
    kinds = [k for k in KIND_OF_PROP.get(prop, []) if k in E.tv]
    if not kinds:
        return {"status": "unavailable", "reason": "no encoded kernel to validate"}
    rnd = random.Random("e2/%s/%d" % (prop, seed))
    extra_sizes = [(rnd.randint(1, 65535), rnd.randint(1, 65535)) for _ in range(5)] + [(rnd.randint(1, 400), rnd.randint(1, 600)) for _ in range(4)]
    cvecs = []
    for ob in cands:
        kind = {"saw": "saw", "init": "init", "scroll": "scroll", "madctl": "madctl", "degree": "deg"}.get(ob["name"].split("/")[0])
        if ob["name"].startswith("orientation/"):
            m = ob.get("model") or {}
            rv = [v for k, v in m.items() if k.startswith("rot_")]
            mv = [v for k, v in m.items() if k.startswith("mirrored_")]
            bv_ = [v for k, v in m.items() if k.startswith("by_")]
            sub = ob["name"].split("/")[1]
            which = {"rotate": 0, "flip_horizontal": 1, "flip_vertical": 2, "flip_horizontal_twice": 3, "flip_vertical_twice": 4, "flip_h_then_v": 5}.get(sub, 0)
            if rv and mv:
                if "panic-free" in ob["name"]:
                    # the panic is inside a helper reached from several operations: try them all
                    for w in range(6):
                        cvecs.append((ob, "orient", [int(rv[0]), int(mv[0]), w, int(bv_[0]) if bv_ else 0]))
                else:
                    cvecs.append((ob, "orient", [int(rv[0]), int(mv[0]), which, int(bv_[0]) if bv_ else 0]))
            continue
        if kind and kind in E.tv:
            v = cand_vector(kind, ob, E.tv[kind])
            if v is not None:
                cvecs.append((ob, kind, v))
                if kind in ("saw", "init", "scroll"):
                    extra_sizes.append((v[0], v[1]))
    sizes = FIXED_SIZES + extra_sizes
    nat = Native(scratch.dir, sizes)
    if not nat.ok:
        return {"status": "unavailable", "reason": "native build failed: " + nat.err}
    z3 = E.solvers[0]
    report = {"status": "ok", "vectors": 0, "mismatches": [], "kinds": kinds, "samples": []}
    for kind in kinds:
        tv = E.tv[kind]
        vs = gen_vectors(kind, rnd, 40 if kind != "saw" else 48, sizes)
        lines = [("%s " % kind) + " ".join(str(x) for x in v) for v in vs]
        outs = nat.run(lines)
        for v, out in zip(vs, outs):
            fam = FAMILY[v[0]] if kind == "madctl" else None
            enc = eval_encoding(z3, tv, v[1:] if kind == "madctl" else v, WIDTHS[kind], fam)
            t = out.split()
            if isinstance(enc, list):
                agree = t[0] == "ok" and [int(z) for z in t[1:1 + len(enc)]] == enc
            elif isinstance(enc, tuple):
                # no path of the encoding is feasible: legitimate only if the real code panics
                agree = (t[0] == "panic" and enc[1] == 0)
            else:
                agree = (out.split()[0] == enc.split()[0]) and (enc.split()[1:] == t[1:len(enc.split())])
            report["vectors"] += 1
            if len(report["samples"]) < 6:
                report["samples"].append({"kind": kind, "input": v, "native": out, "encoding": enc})
            if not agree:
                report["mismatches"].append({"kind": kind, "input": v, "native": out, "encoding": enc})
            good, why = judge(kind, v, out)
            if not good and out.split()[0] != "panic":
                # the real code misbehaves on a validation vector: report it like a candidate
                report.setdefault("native_oracle_failures", []).append({"kind": kind, "input": v, "native": out, "why": why})
    if report["mismatches"]:
        report["status"] = "mismatch"
        report["mismatches"] = report["mismatches"][:5]
        return report
    # replay the candidates
    for (ob, kind, v) in cvecs:
        if ob["verdict"] == "violated":
            continue
        out = nat.run([("%s " % kind) + " ".join(str(x) for x in v)])[0]
        good, why = judge(kind, v, out)
        if not good:
            d = os.path.join(os.environ.get("VERIF_OUT", VERIF), "replays", prop)
            os.makedirs(d, exist_ok=True)
            path = os.path.join(d, "e2_%s.json" % re.sub(r"[^A-Za-z0-9]+", "_", ob["name"]))
            json.dump({"engine": "mir2smt", "property": prop, "kind": kind, "input": v, "native_output": out, "why": why,
                       "obligation": ob["name"], "what": ob["what"]}, open(path, "w"), indent=1)
            ob["verdict"] = "violated"
            ob["replayed"] = True
            ob["replay_path"] = path
            ob["what"] += " -- real code: " + why
        elif ob["verdict"] != "violated":
            ob["verdict"] = "inconclusive"
            if "does not reproduce" not in ob["what"]:
                ob["what"] += " (solver model does not reproduce on the real code: encoding suspect; native says %r)" % out
    for ob in cands:
        if ob["verdict"] == "candidate":
            ob["verdict"] = "inconclusive"
            ob["what"] += " (solver model could not be replayed on the real code for this obligation: not reported)"
    for f in report.get("native_oracle_failures", [])[:1]:
        d = os.path.join(os.environ.get("VERIF_OUT", VERIF), "replays", prop)
        os.makedirs(d, exist_ok=True)
        path = os.path.join(d, "e2_vector_%s.json" % f["kind"])
        json.dump({"engine": "mir2smt", "property": prop, "kind": f["kind"], "input": f["input"], "native_output": f["native"], "why": f["why"]}, open(path, "w"), indent=1)
        E.obligations.append({"name": "vector/" + f["kind"], "verdict": "violated", "replayed": True, "replay_path": path,
                              "what": "validation vector on the real code: " + f["why"], "answers": {}})
    return report


def replay_file(prop, path, scratch):
    d = json.load(open(path))
    v = d["input"]
    sizes = FIXED_SIZES + ([(v[0], v[1])] if d["kind"] in ("saw", "init", "scroll") else [])
    nat = Native(scratch.dir, sizes)
    if not nat.ok:
        print("native build failed", nat.err)
        return 2
    out = nat.run([("%s " % d["kind"]) + " ".join(str(x) for x in v)])[0]
    good, why = judge(d["kind"], v, out)
    print("input", v, "->", out, "" if good else "VIOLATES: " + why)
    return 0 if good else 1
