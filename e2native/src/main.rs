//! Native side of E2's translator validation and counter-example replay: runs the real,
//! natively compiled mipidsi code on concrete vectors read from stdin (one per line) and
//! prints what it did.  The framebuffer-size dispatch table is generated per run.
use core::convert::Infallible;
use embedded_graphics_core::pixelcolor::Rgb565;
use embedded_hal::delay::DelayNs;
use mipidsi::{
    dcs::{DcsCommand, InterfaceExt, SetAddressMode},
    interface::{Interface, InterfaceKind},
    models::{Model, ModelInitError},
    options::*,
    Builder, ConfigurationError, InitError,
};
use std::io::BufRead;
use std::panic::{catch_unwind, AssertUnwindSafe};

struct VModel<const FW: u16, const FH: u16>;
impl<const FW: u16, const FH: u16> Model for VModel<FW, FH> {
    type ColorFormat = Rgb565;
    const FRAMEBUFFER_SIZE: (u16, u16) = (FW, FH);
    fn init<DELAY: DelayNs, DI: Interface>(
        &mut self,
        di: &mut DI,
        _delay: &mut DELAY,
        options: &ModelOptions,
    ) -> Result<SetAddressMode, ModelInitError<DI::Error>> {
        let madctl = SetAddressMode::from(options);
        di.write_command(madctl)?;
        Ok(madctl)
    }
}
struct Pin(*mut u32);
impl embedded_hal::digital::ErrorType for Pin {
    type Error = Infallible;
}
impl embedded_hal::digital::OutputPin for Pin {
    fn set_low(&mut self) -> Result<(), Infallible> {
        unsafe { *self.0 += 1 };
        Ok(())
    }
    fn set_high(&mut self) -> Result<(), Infallible> {
        unsafe { *self.0 += 1 };
        Ok(())
    }
}
struct Delay(*mut u32);
impl DelayNs for Delay {
    fn delay_ns(&mut self, _ns: u32) {
        unsafe { *self.0 += 1 };
    }
}
#[derive(Default)]
struct Rec {
    cmds: Vec<(u8, Vec<u8>)>,
}
impl Interface for Rec {
    type Word = u8;
    type Error = Infallible;
    const KIND: InterfaceKind = InterfaceKind::Serial4Line;
    fn send_command(&mut self, c: u8, a: &[u8]) -> Result<(), Infallible> {
        self.cmds.push((c, a.to_vec()));
        Ok(())
    }
    fn send_pixels<const N: usize>(&mut self, p: impl IntoIterator<Item = [u8; N]>) -> Result<(), Infallible> {
        for _ in p {}
        Ok(())
    }
    fn send_repeated_pixel<const N: usize>(&mut self, _p: [u8; N], _c: u32) -> Result<(), Infallible> {
        Ok(())
    }
}
fn rot(r: u32) -> Rotation {
    match r {
        0 => Rotation::Deg0,
        1 => Rotation::Deg90,
        2 => Rotation::Deg180,
        _ => Rotation::Deg270,
    }
}
fn be(a: &[u8], i: usize) -> u16 {
    u16::from_be_bytes([a[i], a[i + 1]])
}

fn saw<const FW: u16, const FH: u16>(v: &[i64]) -> String {
    let (w, h, ox, oy) = (v[2] as u16, v[3] as u16, v[4] as u16, v[5] as u16);
    let o = Orientation { rotation: rot(v[6] as u32), mirrored: v[7] != 0 };
    let (sx, sy, ex, ey) = (v[8] as u16, v[9] as u16, v[10] as u16, v[11] as u16);
    let mut n = 0u32;
    let r = Builder::new(VModel::<FW, FH>, Rec::default())
        .display_size(w, h)
        .display_offset(ox, oy)
        .orientation(o)
        .reset_pin(Pin(&mut n))
        .init(&mut Delay(&mut n));
    let Ok(mut d) = r else { return "init-err".into() };
    let k0 = unsafe { d.dcs() }.cmds.len();
    d.set_pixels(sx, sy, ex, ey, core::iter::empty()).unwrap();
    let (rec, _, _) = d.release();
    let mad = rec.cmds.iter().rev().find(|c| c.0 == 0x36).map(|c| c.1[0]).unwrap_or(0);
    let c = &rec.cmds[k0..];
    if c.len() != 3 || c[0].0 != 0x2A || c[1].0 != 0x2B || c[2].0 != 0x2C || c[0].1.len() != 4 || c[1].1.len() != 4 {
        return format!("framing {:?}", c);
    }
    format!("ok {} {} {} {} {}", be(&c[0].1, 0), be(&c[0].1, 2), be(&c[1].1, 0), be(&c[1].1, 2), mad)
}

fn init<const FW: u16, const FH: u16>(v: &[i64]) -> String {
    let (w, h, ox, oy) = (v[2] as u16, v[3] as u16, v[4] as u16, v[5] as u16);
    let mut n = 0u32;
    let r = Builder::new(VModel::<FW, FH>, Rec::default())
        .display_size(w, h)
        .display_offset(ox, oy)
        .reset_pin(Pin(&mut n))
        .init(&mut Delay(&mut n));
    match r {
        Ok(_) => "accept".into(),
        Err(InitError::InvalidConfiguration(ConfigurationError::InvalidDisplaySize)) => format!("size {}", n),
        Err(InitError::InvalidConfiguration(ConfigurationError::InvalidDisplayOffset)) => format!("offset {}", n),
        Err(_) => "other".into(),
    }
}

fn scroll<const FW: u16, const FH: u16>(v: &[i64]) -> String {
    let mut n = 0u32;
    let mut d = Builder::new(VModel::<FW, FH>, Rec::default()).reset_pin(Pin(&mut n)).init(&mut Delay(&mut n)).unwrap();
    let k0 = unsafe { d.dcs() }.cmds.len();
    d.set_vertical_scroll_region(v[2] as u16, v[3] as u16).unwrap();
    let (rec, _, _) = d.release();
    let c = &rec.cmds[k0..];
    if c.len() != 1 || c[0].0 != 0x33 || c[0].1.len() != 6 {
        return format!("framing {:?}", c);
    }
    format!("ok {} {} {}", be(&c[0].1, 0), be(&c[0].1, 2), be(&c[0].1, 4))
}

fn madctl(v: &[i64]) -> String {
    let mk = |i: usize| {
        let co = if v[i] == 0 { ColorOrder::Rgb } else { ColorOrder::Bgr };
        let o = Orientation { rotation: rot(v[i + 1] as u32), mirrored: v[i + 2] != 0 };
        let ro = RefreshOrder::new(
            if v[i + 3] == 0 { VerticalRefreshOrder::TopToBottom } else { VerticalRefreshOrder::BottomToTop },
            if v[i + 4] == 0 { HorizontalRefreshOrder::LeftToRight } else { HorizontalRefreshOrder::RightToLeft },
        );
        (co, o, ro)
    };
    // which: 0 new, 1 with_orientation, 2 with_color_order, 3 with_refresh_order (start = new(first triple))
    let (co0, o0, ro0) = mk(1);
    let (co1, o1, ro1) = mk(6);
    let s = SetAddressMode::new(co0, o0, ro0);
    let m = match v[0] {
        0 => SetAddressMode::new(co1, o1, ro1),
        1 => s.with_orientation(o1),
        2 => s.with_color_order(co1),
        _ => s.with_refresh_order(ro1),
    };
    let mut b = [0u8; 1];
    m.fill_params_buf(&mut b);
    format!("ok {}", b[0])
}

fn deg(v: &[i64]) -> String {
    match Rotation::try_from_degree(v[0] as i32) {
        Ok(r) => format!("ok {}", r.degree()),
        Err(_) => "err".into(),
    }
}

fn orient(v: &[i64]) -> String {
    // rot mirrored which by   (which: 0 rotate(by), 1 flip_h, 2 flip_v, 3 flip_h twice, 4 flip_v twice, 5 flip_h then flip_v)
    let o = Orientation { rotation: rot(v[0] as u32), mirrored: v[1] != 0 };
    let r = match v[2] {
        0 => o.rotate(rot(v[3] as u32)),
        1 => o.flip_horizontal(),
        2 => o.flip_vertical(),
        3 => o.flip_horizontal().flip_horizontal(),
        4 => o.flip_vertical().flip_vertical(),
        _ => o.flip_horizontal().flip_vertical(),
    };
    format!("ok {} {}", r.rotation.degree() / 90, r.mirrored as u8)
}

/*DISPATCH*/

fn main() {
    std::panic::set_hook(Box::new(|_| {}));
    for line in std::io::stdin().lock().lines() {
        let line = line.unwrap();
        let mut it = line.split_whitespace();
        let Some(cmd) = it.next() else { continue };
        let v: Vec<i64> = it.map(|x| x.parse().unwrap()).collect();
        let out = catch_unwind(AssertUnwindSafe(|| match cmd {
            "saw" | "init" | "scroll" => dispatch(cmd, &v),
            "madctl" => madctl(&v),
            "deg" => deg(&v),
            "orient" => orient(&v),
            _ => "unknown".into(),
        }));
        println!("{}", out.unwrap_or_else(|_| "panic".into()));
    }
}
