#!/bin/bash
# development aid: confirm a mutant independently in a scratch worktree of /repo's HEAD:
#  - patch applies, builds with both feature sets, full existing test-suite passes with it
#  - the demonstration fails with the change and passes without it
# usage: mutconfirm.sh <mutant-dir>   (prints a JSON line)
md=$1
name=$(echo "$md" | tr '/' '_' | sed 's/^_*//')
wt=/tmp/mutcf-$name
git -C /repo worktree remove --force "$wt" >/dev/null 2>&1; rm -rf "$wt"
git -C /repo worktree add --detach "$wt" HEAD >/dev/null 2>&1 || { echo "{\"mutant\":\"$md\",\"error\":\"worktree\"}"; exit 9; }
cp /repo/Cargo.lock "$wt/"
export CARGO_TARGET_DIR="$wt/target" CARGO_NET_OFFLINE=true
cd "$wt"
cp "$md/demo.rs" tests/demo_mut.rs
feat=""; grep -qiE "demo needs --no-default-features|--no-default-features --test demo" "$md/notes.md" 2>/dev/null && feat="--no-default-features"
cargo test --offline $feat --test demo_mut >"$wt/demo_pristine.log" 2>&1; demo_pristine=$?
applies=0
git apply "$md/patch.diff" 2>/dev/null || git apply --3way "$md/patch.diff" 2>/dev/null || applies=1
if [ $applies != 0 ]; then echo "{\"mutant\":\"$md\",\"applies\":false}"; cd /; git -C /repo worktree remove --force "$wt"; exit 0; fi
cargo build --offline >/dev/null 2>&1; b1=$?
cargo build --offline --no-default-features >/dev/null 2>&1; b2=$?
mv tests/demo_mut.rs "$wt/demo_mut.rs.keep"
cargo test --offline --workspace >"$wt/suite.log" 2>&1; suite=$?
passed=$(grep -E "^test result: ok" "$wt/suite.log" | head -1 | grep -o "[0-9]* passed" | head -1)
mv "$wt/demo_mut.rs.keep" tests/demo_mut.rs
cargo test --offline $feat --test demo_mut >"$wt/demo_mutant.log" 2>&1; demo_mutant=$?
echo "{\"mutant\":\"$md\",\"applies\":true,\"build_default\":$b1,\"build_nodefault\":$b2,\"suite_exit\":$suite,\"unit_tests\":\"$passed\",\"demo_on_head_exit\":$demo_pristine,\"demo_on_mutant_exit\":$demo_mutant}"
cd /; git -C /repo worktree remove --force "$wt" >/dev/null 2>&1; rm -rf "$wt"
