// Step proofs over the private batching iterators of /repo/src/batch.rs.
// This text is `include!`d as the child module `batch::verif_incrate` under
// `--cfg almindor_mipidsi_verif_incrate` (hook H3), so it can name private fields.
//
// One call of `next()` from an ARBITRARY valid iterator state: because the start state is
// arbitrary (constrained only by the representation invariant below), one step covers
// streams of any length by induction on the state.
//
// Representation invariants (checked to be re-established by every step):
//   RowIterator:   first_pixel  or  (1 <= len <= MAX_ROW_SIZE, x_right = x_left + len - 1 <= 65534, y <= 65534)
//   BlockIterator: first_row    or  (width = x_right-x_left+1 in 1..=MAX_ROW_SIZE, rows = y_bottom-y_top+1 >= 1,
//                                    len = width*rows <= MAX_BLOCK_SIZE, x_right <= 65534, y_bottom <= 65534)
// Source precondition: pixels that reach the iterators lie inside the display's bounding
// box (draw_iter filters them; C02's black-box harness checks that it does), i.e.
// 0 <= x, y <= 65534; negative coordinates are additionally allowed because the row
// iterator has its own filter for them.

#[cfg(kani)]
mod proofs {
    use super::super::*;
    use embedded_graphics_core::pixelcolor::{raw::RawU16, Rgb565};

    /// pixel source: yields up to K symbolic pixels, then None forever
    pub struct Src<const K: usize> {
        pub px: [(i32, i32, u16); K],
        pub n: usize,
        pub i: usize,
        pub pulls: usize,
    }
    impl<const K: usize> Iterator for Src<K> {
        type Item = Pixel<Rgb565>;
        fn next(&mut self) -> Option<Self::Item> {
            let k = self.pulls;
            self.pulls += 1;
            if k < K && k < self.n {
                let (x, y, c) = self.px[k];
                self.i = k + 1;
                Some(Pixel(Point::new(x, y), Rgb565::from(RawU16::new(c))))
            } else {
                None
            }
        }
    }

    fn raw(c: Rgb565) -> u16 {
        use embedded_graphics_core::prelude::IntoStorage;
        c.into_storage()
    }

    fn any_row_state<const K: usize>() -> (RowIterator<Rgb565, Src<K>>, [u16; MAX_ROW_SIZE], usize, [(i32, i32, u16); K]) {
        let px: [(i32, i32, u16); K] = kani::any();
        let mut i = 0;
        while i < K {
            kani::assume(px[i].0 <= 65534 && px[i].1 <= 65534);
            i += 1;
        }
        let n: usize = kani::any();
        kani::assume(n <= K);
        let first_pixel: bool = kani::any();
        let len: usize = kani::any();
        kani::assume(len <= MAX_ROW_SIZE);
        let x_left: u16 = kani::any();
        let y: u16 = kani::any();
        let cols: [u16; MAX_ROW_SIZE] = kani::any();
        let mut colors: RowColors<Rgb565> = RowColors::new();
        for i in 0..MAX_ROW_SIZE {
            if i < len {
                let _ = colors.push(Rgb565::from(RawU16::new(cols[i])));
            }
        }
        let x_right: u16 = kani::any();
        if !first_pixel {
            kani::assume(len >= 1 && y <= 65534);
            kani::assume(x_left as u32 + len as u32 - 1 <= 65534);
            kani::assume(x_right == x_left + (len as u16 - 1));
        }
        let it = RowIterator { pixels: Src::<K> { px, n, i: 0, pulls: 0 }, x_left, x_right, y, colors, first_pixel };
        (it, cols, len, px)
    }

    /// The step lemmas assume that a full row always fits into an empty block (the code says
    /// `expect("never")` there) and C20 requires a row capacity of at least two pixels.
    //@ props=C03,C20,C02 cfg=incrate inst="capacity constants of src/batch.rs (real values)" bounds="constants" timeout=600 mem=4
    #[kani::proof]
    fn caps_consistent() {
        assert!(MAX_ROW_SIZE <= MAX_BLOCK_SIZE, "[C03][C02] a full pixel row fits into an empty block (otherwise draw_iter panics on a long run)");
        assert!(MAX_ROW_SIZE >= 2, "[C20] the row capacity is at least two pixels");
        // the first row of a block is taken over whole, at the real capacities, with concrete data
        let mut colors: RowColors<Rgb565> = RowColors::new();
        for i in 0..MAX_ROW_SIZE {
            let _ = colors.push(Rgb565::from(RawU16::new(i as u16)));
        }
        let mut b: BlockColors<Rgb565> = BlockColors::new();
        assert!(b.extend_from_slice(&colors).is_ok(), "[C03][C02] extend of an empty block by a full row succeeds");
        kani::cover!(b.len() == MAX_ROW_SIZE, "cover: reached");
    }

    /// C03/C08: sequence preservation and well-formedness of one RowIterator step.
    //@ props=C03,C08,C02,C01 cfg=incrate_small,incrate inst="RowIterator::next, one step from an arbitrary valid state" bounds="source yields <= 2 symbolic pixels then None; every colour symbolic; capacity 4 (H4) and 50 (real); symbolic element index" timeout=2400 mem=8
    #[kani::proof]
    #[kani::unwind(52)]
    fn row_step() {
        const K: usize = 2;
        let (mut it, cols, len, px) = any_row_state::<K>();
        let (first_pixel, x_left, y) = (it.first_pixel, it.x_left, it.y);
        let out = it.next();
        let plen0 = if first_pixel { 0 } else { len };
        let consumed = it.pixels.i;
        let j: usize = kani::any();
        // input side: pending(S) ++ filter(non-negative, consumed pixels)
        let mut lhs_len = plen0;
        let mut lhs_j: Option<(u16, u16, u16)> = None;
        if j < plen0 {
            lhs_j = Some((x_left + j as u16, y, cols[j]));
        }
        for i in 0..K {
            if i < consumed {
                let (x, yy, c) = px[i];
                if x >= 0 && yy >= 0 {
                    if lhs_len == j {
                        lhs_j = Some((x as u16, yy as u16, c));
                    }
                    lhs_len += 1;
                }
            }
        }
        // output side: flatten(returned row) ++ pending(S')
        let mut rhs_len = 0usize;
        let mut rhs_j: Option<(u16, u16, u16)> = None;
        if let Some(ref r) = out {
            assert!(r.colors.len() >= 1, "[C03][C08] returned row is non-empty");
            assert!(r.x_right >= r.x_left && (r.x_right - r.x_left) as usize + 1 == r.colors.len(), "[C03][C08] returned row is well-formed: x_right - x_left + 1 = len");
            if j < r.colors.len() {
                rhs_j = Some((r.x_left + j as u16, r.y, raw(r.colors[j])));
            }
            rhs_len = r.colors.len();
        } else {
            assert!(it.pixels.pulls > consumed, "[C03] None only when the source is exhausted");
            assert!(it.first_pixel, "[C03] None only when nothing is pending: no dropped trailing batch");
        }
        if !it.first_pixel {
            let l = it.colors.len();
            assert!(l >= 1 && l <= MAX_ROW_SIZE && it.x_right >= it.x_left && (it.x_right - it.x_left) as usize + 1 == l && it.x_right <= 65534 && it.y <= 65534, "[C03] row invariant re-established");
            if j >= rhs_len && j - rhs_len < l {
                rhs_j = Some((it.x_left + (j - rhs_len) as u16, it.y, raw(it.colors[j - rhs_len])));
            }
            rhs_len += l;
        }
        assert!(lhs_len == rhs_len, "[C03][C01] no pixel dropped or duplicated by a row step");
        assert!(lhs_j == rhs_j, "[C03][C01] pixels keep position, colour and order through a row step");
        kani::cover!(out.is_some() && len == MAX_ROW_SIZE && consumed == 1 && !first_pixel, "cover: full row flushed by an adjacent pixel");
        kani::cover!(out.is_none() && consumed == 2, "cover: source exhausted after skipping");
    }

    /// C20: a pending row is cut only where the property allows it.  `cap` is measured from
    /// the driver's behaviour on one long concrete run.
    //@ props=C20 cfg=incrate_small,incrate inst="RowIterator::next merge lemma" bounds="arbitrary valid state, one incoming symbolic pixel; capacity measured from a concrete run of 130 adjacent pixels" timeout=2400 mem=8
    #[kani::proof]
    #[kani::unwind(132)]
    fn row_merge() {
        // measure the row capacity: 130 adjacent pixels, length of the first returned row
        struct Run {
            k: i32,
        }
        impl Iterator for Run {
            type Item = Pixel<Rgb565>;
            fn next(&mut self) -> Option<Self::Item> {
                let k = self.k;
                self.k += 1;
                if k < 130 {
                    Some(Pixel(Point::new(k, 7), Rgb565::from(RawU16::new(k as u16))))
                } else {
                    None
                }
            }
        }
        let mut m = to_rows(Run { k: 0 });
        let first = m.next().unwrap();
        let cap = first.colors.len();
        assert!(cap >= 2, "[C20] the driver's own row capacity is at least two pixels");
        assert!(first.x_left == 0 && first.x_right as usize == cap - 1, "[C20] a long run is cut exactly at the capacity");
        // the step
        const K: usize = 1;
        let (mut it, _cols, len, px) = any_row_state::<K>();
        kani::assume(!it.first_pixel && it.pixels.n == 1);
        let (xr, y) = (it.x_right, it.y);
        let (x, yy, _c) = px[0];
        kani::assume(x >= 0 && yy >= 0);
        let out = it.next();
        let adjacent = x == xr as i32 + 1 && yy == y as i32;
        if adjacent && len < cap {
            assert!(out.is_none() || it.pixels.pulls > 1, "[C20] an adjacent pixel extends the pending row instead of cutting it");
            assert!(it.colors.len() == len + 1 || out.is_some(), "[C20] merged");
            if let Some(ref r) = out {
                // the source ended after the merge: the whole run comes out as one row
                assert!(r.colors.len() == len + 1, "[C20] run returned as one burst");
            }
        }
        kani::cover!(adjacent && len + 1 == cap, "cover: merge up to the capacity");
    }

    /// row source: yields up to 1 symbolic well-formed row, then None
    pub struct RSrc {
        pub xl: u16,
        pub len: usize,
        pub y: u16,
        pub cols: [u16; MAX_ROW_SIZE],
        pub n: usize,
        pub pulls: usize,
        pub i: usize,
    }
    impl Iterator for RSrc {
        type Item = PixelRow<Rgb565>;
        fn next(&mut self) -> Option<Self::Item> {
            let k = self.pulls;
            self.pulls += 1;
            if k < 1 && k < self.n {
                self.i = k + 1;
                let mut colors: RowColors<Rgb565> = RowColors::new();
                {
                    let p = colors.as_mut_ptr();
                    for i in 0..MAX_ROW_SIZE {
                        unsafe {
                            p.add(i).write(Rgb565::from(RawU16::new(self.cols[i])));
                        }
                    }
                    unsafe {
                        colors.set_len(self.len);
                    }
                }
                Some(PixelRow { x_left: self.xl, x_right: self.xl + (self.len as u16 - 1), y: self.y, colors })
            } else {
                None
            }
        }
    }

    /// which part of the block lemma: 0 = all, 1 = row extends the block, 2 = row does not extend it
    fn block_step_case(case: u8) {
        let xl: u16 = kani::any();
        let len: usize = kani::any();
        let ys: u16 = kani::any();
        let cols: [u16; MAX_ROW_SIZE] = kani::any();
        let n: usize = kani::any();
        kani::assume(n <= 1);
        kani::assume(len >= 1 && len <= MAX_ROW_SIZE && xl as usize + len - 1 <= 65534 && ys <= 65534);
        let first_row: bool = kani::any();
        let wd: u8 = kani::any();
        let rows: u8 = kani::any();
        kani::assume(wd >= 1 && wd as usize <= MAX_ROW_SIZE && rows >= 1 && rows as usize <= MAX_BLOCK_SIZE && (wd as u16) * (rows as u16) <= MAX_BLOCK_SIZE as u16);
        let bxl: u16 = kani::any();
        let byt: u16 = kani::any();
        kani::assume(bxl as usize + wd as usize - 1 <= 65534 && byt as usize + rows as usize - 1 <= 65534);
        let bcols: [u16; MAX_BLOCK_SIZE] = kani::any();
        let blen = ((wd as u16) * (rows as u16)) as usize;
        let mut colors: BlockColors<Rgb565> = BlockColors::new();
        {
            let p = colors.as_mut_ptr();
            for i in 0..MAX_BLOCK_SIZE {
                unsafe {
                    p.add(i).write(Rgb565::from(RawU16::new(bcols[i])));
                }
            }
            unsafe {
                colors.set_len(blen);
            }
        }
        let extends = ys == byt + (rows as u16 - 1) + 1 && xl == bxl && len == wd as usize && blen + len <= MAX_BLOCK_SIZE;
        if case == 1 {
            kani::assume(!first_row && n == 1 && extends);
        } else if case == 2 {
            kani::assume(!first_row && n == 1 && !extends);
        } else if case == 3 {
            kani::assume(first_row || n == 0);
        }
        let mut it = BlockIterator {
            rows: RSrc { xl, len, y: ys, cols, n, pulls: 0, i: 0 },
            x_left: bxl,
            x_right: bxl + (wd as u16 - 1),
            y_top: byt,
            y_bottom: byt + (rows as u16 - 1),
            colors,
            first_row,
        };
        let out = it.next();
        let consumed = it.rows.i;
        let plen0 = if first_row { 0 } else { blen };
        let total = plen0 + if consumed >= 1 { len } else { 0 };
        // symbolic element of the input-side sequence, as (x, y, colour)
        let j: usize = kani::any();
        kani::assume(j < total);
        let (lx, ly, lc) = if j < plen0 {
            let r: u8 = kani::any();
            let c: u8 = kani::any();
            kani::assume(c < wd && r < rows && j == ((r as u16) * (wd as u16) + c as u16) as usize);
            (bxl + c as u16, byt + r as u16, bcols[j])
        } else {
            let q = j - plen0;
            (xl + q as u16, ys, cols[q])
        };
        // output side: flatten(out) ++ pending(S'), row-major over each rectangle
        let mut rhs_len = 0usize;
        let mut found = false;
        if let Some(ref b) = out {
            assert!(b.x_right >= b.x_left && b.y_bottom >= b.y_top, "[C03][C08] returned block is a rectangle: start <= end");
            let w = (b.x_right - b.x_left) as usize + 1;
            let h = (b.y_bottom - b.y_top) as usize + 1;
            assert!(w <= MAX_ROW_SIZE && h <= MAX_BLOCK_SIZE && b.colors.len() == ((w as u16) * (h as u16)) as usize, "[C03][C08][C01] block data = width x rows: the burst exactly fills its window");
            if j < b.colors.len() {
                let r: u8 = kani::any();
                let c: u8 = kani::any();
                kani::assume((c as usize) < w && (r as usize) < h && j == ((r as u16) * (w as u16) + c as u16) as usize);
                assert!((b.x_left + c as u16, b.y_top + r as u16, raw(b.colors[j])) == (lx, ly, lc), "[C03][C01] pixels keep position, colour and order through a block step (returned block)");
                found = true;
            }
            rhs_len = b.colors.len();
        } else {
            assert!(it.rows.pulls > consumed && it.first_row, "[C03] None only when the rows are exhausted and nothing is pending");
        }
        if !it.first_row {
            assert!(it.x_right >= it.x_left && it.y_bottom >= it.y_top && it.x_right <= 65534 && it.y_bottom <= 65534, "[C03] block invariant re-established (geometry)");
            let w = (it.x_right - it.x_left) as usize + 1;
            let h = (it.y_bottom - it.y_top) as usize + 1;
            assert!(w <= MAX_ROW_SIZE && h <= MAX_BLOCK_SIZE && it.colors.len() == ((w as u16) * (h as u16)) as usize, "[C03] block invariant re-established (len = width x rows)");
            if j >= rhs_len && j - rhs_len < it.colors.len() {
                let q = j - rhs_len;
                let r: u8 = kani::any();
                let c: u8 = kani::any();
                kani::assume((c as usize) < w && (r as usize) < h && q == ((r as u16) * (w as u16) + c as u16) as usize);
                assert!((it.x_left + c as u16, it.y_top + r as u16, raw(it.colors[q])) == (lx, ly, lc), "[C03][C01] pixels keep position, colour and order through a block step (pending block)");
                found = true;
            }
            rhs_len += it.colors.len();
        }
        assert!(total == rhs_len, "[C03][C01] no pixel dropped or duplicated by a block step");
        assert!(found, "[C03] every input element appears on the output side");
        // non-vacuity witnesses, chosen per case so that each is reachable
        let wa = out.is_some() && consumed == 1 && it.first_row && !first_row && extends; // merged block returned when the source ends
        let wb = out.is_some() && consumed == 1 && !it.first_row && !first_row; // old block returned, new block pending
        let wc = out.is_some() && !first_row && n == 0; // flush of the trailing block
        let wd = first_row && n == 1; // first row taken
        kani::cover!(match case { 1 => wa, 2 => wb, 3 => wc, _ => wa }, "cover: case witness 1");
        kani::cover!(match case { 1 => wa, 2 => wb, 3 => wd, _ => wb }, "cover: case witness 2");
    }

    //@ props=C03,C08,C20,C01 cfg=incrate_small inst="BlockIterator::next, one step from an arbitrary valid state, capacities 4/8 (H4)" bounds="source yields <= 1 symbolic well-formed row then None; every colour symbolic; symbolic element index" timeout=1800 mem=8
    #[kani::proof]
    #[kani::unwind(12)]
    fn block_step_small() {
        block_step_case(0)
    }
    //@ props=C03,C08,C20 tier=thorough cfg=incrate inst="BlockIterator::next at the real capacities 50/100, case: incoming row extends the block" bounds="as block_step_small, restricted by one assume to the case" timeout=5400 mem=16
    #[kani::proof]
    #[kani::unwind(102)]
    fn block_step_real_extends() {
        block_step_case(1)
    }
    //@ props=C03,C08,C20 tier=thorough cfg=incrate inst="BlockIterator::next at the real capacities 50/100, case: incoming row does not extend the block" bounds="same" timeout=5400 mem=16
    #[kani::proof]
    #[kani::unwind(102)]
    fn block_step_real_newblock() {
        block_step_case(2)
    }
    //@ props=C03,C08,C20 tier=thorough cfg=incrate inst="BlockIterator::next at the real capacities 50/100, cases: state empty / source exhausted (flush)" bounds="same" timeout=5400 mem=16
    #[kani::proof]
    #[kani::unwind(102)]
    fn block_step_real_flush() {
        block_step_case(3)
    }
}
