#!/bin/bash
# development aid: apply a mutant patch to /repo, run a command, always revert
# usage: tools_mut.sh <patch.diff> <command...>
patch=$1; shift
cd /repo || exit 9
git diff --quiet || { echo "repo dirty"; exit 9; }
git apply "$patch" || { echo "patch does not apply"; exit 9; }
( cd /verif && VERIF_OUT=/root/scratch/mutout/direct "$@" ); rc=$?
git -C /repo checkout -- . 
exit $rc
