#!/usr/bin/env python3
"""development aid: (re)generate /verif/seeded/<id>/ from the collected, confirmed mutants"""
import json, os, glob, shutil, subprocess, re
conf = {}
for f in ('/root/scratch/mutconfirm.jsonl', '/root/scratch/mutconfirm2.jsonl', '/root/scratch/mutconfirm3.jsonl', '/root/scratch/mutconfirm_r2.jsonl', '/root/scratch/mutconfirm_r3.jsonl'):
    if os.path.exists(f):
        for l in open(f):
            l = l.strip()
            if l.startswith('{'):
                d = json.loads(l); conf[d['mutant']] = d
det = {}
if os.path.exists('/root/scratch/detect.json'):
    det = json.load(open('/root/scratch/detect.json'))
head = subprocess.run(['git', '-C', '/repo', 'rev-parse', '--short', 'HEAD'], capture_output=True, text=True).stdout.strip()
for md in sorted(glob.glob('/root/mutants/C*/m*')) + sorted(glob.glob('/root/mutants2/C*/m*')) + sorted(glob.glob('/root/mutants3/C*/m*')):
    prop = md.split('/')[-2]; mid = prop + ('-r2' if '/mutants2/' in md else '-r3' if '/mutants3/' in md else '-') + md.split('/')[-1]
    c = conf.get(md)
    if not c: continue
    ok = c.get('applies') and c['build_default'] == 0 and c['build_nodefault'] == 0 and c['suite_exit'] == 0 and c['demo_on_head_exit'] == 0 and c['demo_on_mutant_exit'] != 0
    if not ok: continue
    out = os.path.join('/verif/seeded', mid)
    os.makedirs(out, exist_ok=True)
    shutil.copy(os.path.join(md, 'patch.diff'), os.path.join(out, 'patch.diff'))
    shutil.copy(os.path.join(md, 'demo.rs'), os.path.join(out, 'demo.rs'))
    notes = open(os.path.join(md, 'notes.md')).read()
    extra_note = c.get('note')
    nodef = bool(re.search(r'--no-default-features --test demo|demo needs --no-default-features', notes))
    meta = {
        'id': mid, 'breaks_property': prop,
        'author': 'independent sub-agent given only the property text and a scratch worktree',
        'description_by_author': notes.strip(),
        'confirmed': {
            'against_repo_head': head,
            'how': 'mutconfirm.sh in a scratch git worktree of /repo HEAD: git apply patch.diff; cargo build --offline (default and --no-default-features); cargo test --offline --workspace; demo.rs dropped in as tests/demo_mut.rs and run with and without the patch',
            'patch_applies': True, 'builds_both_feature_sets': True,
            'existing_suite_passes_with_change': c['unit_tests'] + ' (+ tests/external.rs + doc tests), exit %d' % c['suite_exit'],
            'demo_without_change': 'passes (exit %d)' % c['demo_on_head_exit'],
            'demo_with_change': 'fails (exit %d)' % c['demo_on_mutant_exit'],
            'demo_command': 'cargo test --offline %s--test demo_mut' % ('--no-default-features ' if nodef else ''),
        },
        'detection': det.get(mid, {}),
        'confirmation_note': extra_note,
    }
    json.dump(meta, open(os.path.join(out, 'meta.json'), 'w'), indent=1)
print(len(glob.glob('/verif/seeded/*')), 'seeded mutants')
