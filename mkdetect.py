#!/usr/bin/env python3
"""development aid: collect the results of the mutant sweeps into /root/scratch/detect.json and a
markdown table (stdout)"""
import re, json, glob, os
rows = {}
files = sorted(glob.glob('/root/scratch/lane_a?.out')) + sorted(glob.glob('/root/scratch/final_*.out')) + sorted(glob.glob('/root/scratch/r2lane_a?.out')) + sorted(glob.glob('/root/scratch/r2final_*.out')) + sorted(glob.glob('/root/scratch/r3lane_a?.out')) + sorted(glob.glob('/root/scratch/r3final_*.out'))
for f in files:
    for l in open(f):
        m = re.match(r"/root/mutants([23]?)/(C\d\d)/(m\d) (C\d\d) exit=(\d+) (\d+)s ::\s*(.*)", l.strip())
        if not m: continue
        mid = m.group(2) + ('-r%s' % m.group(1) if m.group(1) else '-') + m.group(3)
        m = re.match(r"()(\S+) (C\d\d) exit=(\d+) (\d+)s ::\s*(.*)", l.strip())
        viol = m.group(6)
        h = re.search(r"violated: (\S+) :: (.*?)(?: \(release|$)", viol)
        rows.setdefault(mid, []).append({'check': m.group(3), 'tier': ('thorough' if 'final_c20' in f else 'quick'), 'exit': int(m.group(4)), 'seconds': int(m.group(5)),
                                         'harness': h.group(1) if h else None, 'failed': (h.group(2)[:160] if h else None)})
det = {}
for mid, rs in rows.items():
    # keep the last result per check
    last = {}
    for r in rs: last[r['check']] = r
    det[mid] = {'runs': list(last.values()),
                'caught_by_quick': sorted(c for c, r in last.items() if r['exit'] == 1)}
extra = '/verif/seeded/detect_extra.json'
if os.path.exists(extra):
    for mid, v in json.load(open(extra)).items():
        det.setdefault(mid, {'runs': [], 'caught_by_quick': []}).update(v)
json.dump(det, open('/root/scratch/detect.json', 'w'), indent=1)
print('| seeded change | what it breaks (needs) | quick check result |')
print('|---|---|---|')
for mid in sorted(det):
    meta = '/verif/seeded/%s/meta.json' % mid
    desc = ''
    if os.path.exists(meta):
        d = json.load(open(meta))['description_by_author']
        first = [x for x in d.split('\n') if x.strip() and not x.startswith('#')]
        desc = first[0][:110] if first else ''
    r = det[mid]
    res = []
    for run in r['runs']:
        if run['exit'] == 1: res.append('%s: VIOLATION via `%s`' % (run['check'], run['harness']))
        elif run['exit'] == 0: res.append('%s: not caught' % run['check'])
        else: res.append('%s: exit 2 (no verdict)' % run['check'])
    if r.get('note'): res.append(r['note'])
    print('| %s | %s | %s |' % (mid, desc.replace('|', '/'), '; '.join(res)))
