#!/bin/sh
# Offline set-up: check the tools, pre-build the third-party dependencies of the harness
# crate once per build configuration into /verif/.cache (an accelerator only: every check
# rebuilds mipidsi and the harnesses from /repo's current sources and works without it).
set -u
cd "$(dirname "$0")"
export CARGO_NET_OFFLINE=true
fail=0
for t in cargo python3 z3 cvc5; do command -v $t >/dev/null 2>&1 || { echo "missing tool: $t"; fail=1; }; done
cargo kani --version 2>/dev/null | grep -q "0\.68" || { echo "cargo kani 0.68 not found"; fail=1; }
[ $fail = 0 ] || exit 1
mkdir -p .cache evidence replays
GUARD=almindor_mipidsi_verif
build() { # name, extra cargo args, extra cfgs
  name=$1; shift; feat=$1; shift; cfgs="--cfg $GUARD"; for c in "$@"; do cfgs="$cfgs --cfg ${GUARD}_$c"; done
  rm -rf .cache/tgt-$name
  RUSTFLAGS="$cfgs" cargo kani --manifest-path kani/Cargo.toml $feat --harness c00_oracle::oracle_inverse --exact \
     --target-dir .cache/tgt-$name --output-format terse > .cache/build-$name.log 2>&1 \
     || { echo "warning: template build $name failed (checks will build cold)"; rm -rf .cache/tgt-$name; }
}
build main "" &
build nobatch "--no-default-features" &
build ptr16 "" ptr16 &
build smallcap "" smallcap &
wait
echo "setup done"
