#!/bin/bash
# development aid: every check named in benign/<x>/about.txt must stay silent (exit 0, or exit 2
# without a VIOLATION line for abstaining in-crate proofs) on the behaviour-preserving change
for b in /verif/benign/*/; do
  props=$(grep "checks that must stay silent" $b/about.txt | sed 's/.*: //')
  /verif/mutrun.sh ${b%/} quick $props
done
